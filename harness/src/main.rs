#![feature(alloc_error_hook)]
#![allow(clippy::all)]
#![allow(dead_code)]

//! dsverif — runtime monitors for apache/datasketches-rust (see /verif/DESIGN.md).
//!
//! dsverif <PROP> --tier quick|thorough --seed S --shard i --nshards n --profile rel|dbg --out FILE
//!         [--replay FILE]

mod model;
mod mon;
mod refhash;
mod rt;
mod spec;

use rt::{Ctx, Json, Tier};

#[global_allocator]
static GLOBAL: rt::MonAlloc = rt::MonAlloc;

fn usage() -> ! {
    eprintln!("usage: dsverif <PROP> --tier quick|thorough --seed S --shard i --nshards n --profile P --out FILE [--replay FILE]");
    std::process::exit(64);
}

fn main() {
    let args: Vec<String> = std::env::args().collect();
    if args.len() < 2 {
        usage();
    }
    let prop = args[1].clone();
    let mut tier = Tier::Quick;
    let mut seed = 1u64;
    let mut shard = 0usize;
    let mut nshards = 1usize;
    let mut profile = "rel".to_string();
    let mut out: Option<String> = None;
    let mut replay: Option<String> = None;
    let mut verbose = false;
    let mut i = 2;
    while i < args.len() {
        let a = args[i].as_str();
        let mut val = || {
            i += 1;
            if i >= args.len() {
                usage();
            }
            args[i].clone()
        };
        match a {
            "--tier" => {
                tier = match val().as_str() {
                    "quick" => Tier::Quick,
                    "thorough" => Tier::Thorough,
                    _ => usage(),
                }
            }
            "--seed" => seed = val().parse().unwrap_or_else(|_| usage()),
            "--shard" => shard = val().parse().unwrap_or_else(|_| usage()),
            "--nshards" => nshards = val().parse().unwrap_or_else(|_| usage()),
            "--profile" => profile = val(),
            "--out" => out = Some(val()),
            "--replay" => replay = Some(val()),
            "--verbose" => verbose = true,
            _ => usage(),
        }
        i += 1;
    }

    std::alloc::set_alloc_error_hook(|layout| {
        panic!("allocation of {} bytes refused or failed", layout.size());
    });
    rt::install_panic_hook();
    rt::set_quiet(!verbose);

    let mut ctx = Ctx::new(&prop, tier, seed, shard, nshards, &profile);
    ctx.out_path = out.clone();
    if prop != "C14" {
        // seconds a single case may run (C14 has its own, per-call guard); an order of magnitude above the slowest
        // legitimate case of the tier, and below the driver's shard watchdog
        let limit = match (prop.as_str(), tier) {
            ("C01", Tier::Quick) => 300,
            ("C01", Tier::Thorough) => 7200,
            (_, Tier::Quick) => 120,
            (_, Tier::Thorough) => 1800,
        };
        ctx.start_case_watchdog(limit);
    }

    // trusted-base self tests: a failure is inconclusive, never a violation
    match refhash::self_test() {
        Ok(n) => ctx.note("refhash_self_test_vectors", Json::Int(n as i128)),
        Err(e) => ctx.inconclusive(e),
    }

    match spec::cpc::self_check() {
        Ok(n) => ctx.note("cpc_table_self_checks", Json::Int(n as i128)),
        Err(e) => ctx.inconclusive(format!("CPC spec tables self-check failed: {}", e)),
    }

    if ctx.inconclusive.is_empty() {
        let r = rt::guard(|| {
            if let Some(path) = &replay {
                ctx.replaying = true;
                let text = std::fs::read_to_string(path).expect("cannot read replay file");
                let j = Json::parse(&text).expect("replay file is not JSON");
                // a replay file is either {case: ...} or a list of such, or a bare case
                let cases: Vec<Json> = match &j {
                    Json::Arr(a) => a.clone(),
                    _ => vec![j.clone()],
                };
                for c in cases {
                    let case = c.get("case").cloned().unwrap_or(c.clone());
                    mon::replay(&mut ctx, &case);
                }
            } else {
                mon::run(&mut ctx);
            }
        });
        if let Err(p) = r {
            // a panic that escaped a monitor: library panic => violation, harness panic => inconclusive
            ctx.panic_violation("monitor", &p);
        }
    }

    let text = ctx.to_json().dump();
    match out {
        Some(path) => std::fs::write(&path, text).expect("cannot write output"),
        None => println!("{}", text),
    }
}
