//! One monitor per property. Every monitor exposes `run(ctx)` (generate cases for this shard) and
//! `replay(ctx, case)` (re-run one recorded case).

use crate::rt::{Ctx, Json};

pub mod c01;
pub mod c02;
pub mod c03;
pub mod c04;
pub mod c05;
pub mod c06;
pub mod c07;
pub mod c08;
pub mod c09;
pub mod c10;
pub mod c13;
pub mod c14;
pub mod ser;
pub mod c15;
pub mod c17;
pub mod c18;
pub mod td_common;
pub mod c16;

macro_rules! dispatch {
    ($ctx:expr, $f:ident $(, $arg:expr)*) => {
        match $ctx.property.as_str() {
            "C01" => c01::$f($ctx $(, $arg)*),
            "C02" => c02::$f($ctx $(, $arg)*),
            "C03" => c03::$f($ctx $(, $arg)*),
            "C04" => c04::$f($ctx $(, $arg)*),
            "C05" => c05::$f($ctx $(, $arg)*),
            "C06" => c06::$f($ctx $(, $arg)*),
            "C07" => c07::$f($ctx $(, $arg)*),
            "C08" => c08::$f($ctx $(, $arg)*),
            "C09" => c09::$f($ctx $(, $arg)*),
            "C10" => c10::$f($ctx $(, $arg)*),
            "C11" | "C12" => ser::$f($ctx $(, $arg)*),
            "C13" => c13::$f($ctx $(, $arg)*),
            "C14" => c14::$f($ctx $(, $arg)*),
            "C15" => c15::$f($ctx $(, $arg)*),
            "C17" => c17::$f($ctx $(, $arg)*),
            "C18" => c18::$f($ctx $(, $arg)*),
            "C16" => c16::$f($ctx $(, $arg)*),
            other => {
                let msg = format!("no monitor for property {}", other);
                $ctx.inconclusive(msg);
            }
        }
    };
}

pub fn run(ctx: &mut Ctx) {
    dispatch!(ctx, run);
}

pub fn replay(ctx: &mut Ctx, case: &Json) {
    dispatch!(ctx, replay, case);
}
