//! Shared pieces of the t-digest monitors (C10, C15): stream shapes, a uniform query interface over
//! TDigestMut / TDigest, and the centroid list read back through the spec decoder.

use datasketches::tdigest::{TDigest, TDigestMut};

use crate::rt::Rng;
use crate::spec::tdigest as spec;

pub const SHAPES: [&str; 18] = [
    "sorted",
    "reversed",
    "uniform",
    "heavy-duplicates",
    "two-clusters",
    "normal",
    "exponential",
    "tiny-magnitude",
    "huge-magnitude",
    "mixed-magnitudes",
    "loguniform-60-octaves",
    "single-value",
    "two-values",
    "all-equal",
    "sawtooth",
    "loguniform-wide",
    "both-signs-near-f64-max",
    "zero-inflated",
];

/// n values of the given shape (finite; callers may sprinkle NaN/inf separately)
pub fn gen_values(rng: &mut Rng, shape: &str, n: usize) -> Vec<f64> {
    let mut v: Vec<f64> = Vec::with_capacity(n);
    match shape {
        "sorted" => {
            for _ in 0..n {
                v.push(rng.f64() * 1000.0 - 300.0);
            }
            v.sort_by(|a, b| a.partial_cmp(b).unwrap());
        }
        "reversed" => {
            for _ in 0..n {
                v.push(rng.f64() * 1000.0 - 300.0);
            }
            v.sort_by(|a, b| b.partial_cmp(a).unwrap());
        }
        "uniform" => {
            for _ in 0..n {
                v.push(rng.f64());
            }
        }
        "heavy-duplicates" => {
            let vals: Vec<f64> = (0..17).map(|i| (i as f64) * 1.5 - 7.0).collect();
            for _ in 0..n {
                // a few values carry most of the mass
                let i = if rng.chance(0.6) { rng.below(3) } else { rng.below(17) };
                v.push(vals[i as usize]);
            }
        }
        "two-clusters" => {
            for _ in 0..n {
                if rng.chance(0.5) {
                    v.push(rng.normal() * 0.01);
                } else {
                    v.push(1e6 + rng.normal());
                }
            }
        }
        "normal" => {
            for _ in 0..n {
                v.push(rng.normal() * 3.0 + 10.0);
            }
        }
        "exponential" => {
            for _ in 0..n {
                v.push(-(1.0 - rng.f64()).ln());
            }
        }
        "tiny-magnitude" => {
            for _ in 0..n {
                v.push((rng.f64() - 0.3) * 1e-300);
            }
        }
        "huge-magnitude" => {
            for _ in 0..n {
                v.push((rng.f64() - 0.3) * 1e300);
            }
        }
        "mixed-magnitudes" => {
            let mags = [1e-300, 1e-100, 1.0, 1e100, 1e300];
            for _ in 0..n {
                let m = mags[rng.below(5) as usize];
                v.push((rng.f64() - 0.5) * m);
            }
        }
        "loguniform-60-octaves" => {
            for _ in 0..n {
                v.push((2.0f64).powf(rng.f64() * 60.0 - 30.0));
            }
        }
        "loguniform-wide" => {
            for _ in 0..n {
                v.push((2.0f64).powf(rng.f64() * 600.0 - 300.0));
            }
        }
        "both-signs-near-f64-max" => {
            // differences of two such values overflow f64: the mean update has to be overflow safe
            for _ in 0..n {
                let m = (0.95 + rng.f64() * 0.84) * 1e308;
                v.push(if rng.chance(0.5) { m } else { -m });
            }
        }
        "zero-inflated" => {
            // one exact value carries most of the mass (sensor at rest, saturated reading), the rest is continuous
            let p0 = 0.5 + 0.3 * rng.f64();
            for _ in 0..n {
                if rng.chance(p0) {
                    v.push(0.0);
                } else {
                    v.push(rng.normal() * 5.0);
                }
            }
        }
        "single-value" => {
            let x = rng.normal() * 100.0;
            v.push(x);
        }
        "two-values" => {
            let a = rng.normal();
            let b = a + rng.f64() + 1e-9;
            for i in 0..n.max(2) {
                v.push(if (i + rng.below(2) as usize) % 2 == 0 { a } else { b });
            }
        }
        "all-equal" => {
            let x = rng.normal() * 1e3;
            for _ in 0..n {
                v.push(x);
            }
        }
        _ => {
            // sawtooth: repeated ascending blocks
            let block = (n / 7).max(2);
            for i in 0..n {
                v.push((i % block) as f64 + rng.f64() * 0.1);
            }
        }
    }
    v
}

/// One query interface over the mutable and the frozen form.
pub trait Digest {
    fn rank(&mut self, v: f64) -> Option<f64>;
    fn quantile(&mut self, q: f64) -> Option<f64>;
    fn cdf(&mut self, sp: &[f64]) -> Option<Vec<f64>>;
    fn pmf(&mut self, sp: &[f64]) -> Option<Vec<f64>>;
    fn min(&self) -> Option<f64>;
    fn max(&self) -> Option<f64>;
    fn total(&self) -> u64;
    fn empty(&self) -> bool;
    fn form(&self) -> &'static str;
}

impl Digest for TDigestMut {
    fn rank(&mut self, v: f64) -> Option<f64> {
        TDigestMut::rank(self, v)
    }
    fn quantile(&mut self, q: f64) -> Option<f64> {
        TDigestMut::quantile(self, q)
    }
    fn cdf(&mut self, sp: &[f64]) -> Option<Vec<f64>> {
        TDigestMut::cdf(self, sp)
    }
    fn pmf(&mut self, sp: &[f64]) -> Option<Vec<f64>> {
        TDigestMut::pmf(self, sp)
    }
    fn min(&self) -> Option<f64> {
        self.min_value()
    }
    fn max(&self) -> Option<f64> {
        self.max_value()
    }
    fn total(&self) -> u64 {
        self.total_weight()
    }
    fn empty(&self) -> bool {
        self.is_empty()
    }
    fn form(&self) -> &'static str {
        "TDigestMut"
    }
}

impl Digest for TDigest {
    fn rank(&mut self, v: f64) -> Option<f64> {
        TDigest::rank(self, v)
    }
    fn quantile(&mut self, q: f64) -> Option<f64> {
        TDigest::quantile(self, q)
    }
    fn cdf(&mut self, sp: &[f64]) -> Option<Vec<f64>> {
        TDigest::cdf(self, sp)
    }
    fn pmf(&mut self, sp: &[f64]) -> Option<Vec<f64>> {
        TDigest::pmf(self, sp)
    }
    fn min(&self) -> Option<f64> {
        self.min_value()
    }
    fn max(&self) -> Option<f64> {
        self.max_value()
    }
    fn total(&self) -> u64 {
        self.total_weight()
    }
    fn empty(&self) -> bool {
        self.is_empty()
    }
    fn form(&self) -> &'static str {
        "TDigest(frozen)"
    }
}

/// The centroid list of a digest, read back from its own image by the independent spec decoder.
pub fn centroids_of(d: &mut TDigestMut) -> Result<spec::TdImage, String> {
    let img = d.serialize();
    spec::decode_native(&img, false).map(|(im, _)| im)
}

pub fn next_up(x: f64) -> f64 {
    if x.is_nan() || x == f64::INFINITY {
        return x;
    }
    if x == 0.0 {
        return f64::from_bits(1);
    }
    let b = x.to_bits();
    f64::from_bits(if x > 0.0 { b + 1 } else { b - 1 })
}

pub fn next_down(x: f64) -> f64 {
    -next_up(-x)
}

/// exact empirical distribution of a stream
pub struct Exact {
    pub sorted: Vec<f64>,
}

impl Exact {
    pub fn new(mut values: Vec<f64>) -> Exact {
        values.retain(|v| v.is_finite());
        values.sort_by(|a, b| a.partial_cmp(b).unwrap());
        Exact { sorted: values }
    }
    pub fn n(&self) -> usize {
        self.sorted.len()
    }
    /// mid-rank convention for ties
    pub fn rank(&self, v: f64) -> f64 {
        let lo = self.sorted.partition_point(|x| *x < v);
        let hi = self.sorted.partition_point(|x| *x <= v);
        (lo as f64 + 0.5 * (hi - lo) as f64) / self.sorted.len() as f64
    }
}
