//! C01 — cardinality estimates are unbiased and their confidence bounds cover the truth.
//!
//! Statistical monitor: a *cell* is (family, configuration, path, checkpoint n); every cell receives T
//! independent item sets (trials). Deterministic clauses are checked on every observation, the
//! population clauses (bias, spread, coverage) per cell with explicit tolerances (DESIGN.md, C01).

use datasketches::common::NumStdDev;
use datasketches::cpc::{CpcSketch, CpcUnion, CpcWrapper};
use datasketches::hll::{HllSketch, HllType, HllUnion};
use datasketches::theta::{CompactThetaSketch, ThetaSketch};

use super::c02::tname;
use crate::rt::{self, rel_close, Ctx, Fp, Json, Rng};

const SDS: [NumStdDev; 3] = [NumStdDev::One, NumStdDev::Two, NumStdDev::Three];
const NOMINAL: [f64; 3] = [0.6827, 0.9545, 0.9973];
const TOL: [f64; 3] = [0.04, 0.025, 0.006];

/// checkpoints n = round(2^(j/2)), j = 0..=32 (1 .. 65536), deduplicated
pub fn checkpoints(n_max: u64) -> Vec<u64> {
    let mut v: Vec<u64> = (0..=32).map(|j| (2f64.powf(j as f64 / 2.0)).round() as u64).filter(|&n| n <= n_max).collect();
    v.dedup();
    v
}

#[derive(Clone, Default)]
struct Acc {
    t: u64,
    sum: f64,
    sum2: f64,
    cover: [u64; 3],
    max_abs: f64,
    /// trials whose estimate deviates visibly from n (more than 0.1 %)
    inexact: u64,
}

impl Acc {
    fn add(&mut self, n: u64, b: &[f64; 7]) {
        let nf = n as f64;
        let e = b[0] / nf - 1.0;
        self.t += 1;
        self.sum += e;
        self.sum2 += e * e;
        self.max_abs = self.max_abs.max(e.abs());
        if e.abs() > 1e-3 {
            self.inexact += 1;
        }
        for s in 0..3 {
            // est, lb1..3, ub1..3
            if b[1 + s] <= nf * (1.0 + 1e-12) && nf <= b[4 + s] * (1.0 + 1e-12) {
                self.cover[s] += 1;
            }
        }
    }
}

/// log of the binomial pmf
fn ln_binom_pmf(n: u64, k: u64, p: f64) -> f64 {
    fn ln_fact(x: u64) -> f64 {
        // Stirling with correction terms; exact summation for small x
        if x < 30 {
            (1..=x).map(|i| (i as f64).ln()).sum()
        } else {
            let xf = x as f64;
            xf * xf.ln() - xf + 0.5 * (2.0 * std::f64::consts::PI * xf).ln() + 1.0 / (12.0 * xf) - 1.0 / (360.0 * xf * xf * xf)
        }
    }
    ln_fact(n) - ln_fact(k) - ln_fact(n - k) + k as f64 * p.ln() + (n - k) as f64 * (1.0 - p).ln()
}

/// P(X <= x) for X ~ Binomial(n, p)
fn binom_cdf(n: u64, x: u64, p: f64) -> f64 {
    let mut s = 0.0;
    for k in 0..=x.min(n) {
        s += ln_binom_pmf(n, k, p).exp();
    }
    s.min(1.0)
}

/// Material bias tolerance in units of the advertised RSE (on top of it: 6 max(sd, RSE)/sqrt(T) of sampling noise).
/// Calibrated on the repaired tree: HLL (HIP, coupon, composite), CPC HIP and theta show |mean| <= 0.03 RSE;
/// the published ICON polynomial has a real bias of about +0.09 RSE at lg_k = 4.
const BIAS_MAT: f64 = 0.08;
const BIAS_MAT_ICON: f64 = 0.15;

fn judge_cell(ctx: &mut Ctx, cfg: &Json, name: &str, n: u64, acc: &Acc, rse_adv: f64, bias_mat: f64, exact: bool, stats: &mut Vec<Json>) {
    if acc.t < 50 {
        return;
    }
    let dense_name;
    let name = if cfg.bool("dense").unwrap_or(false) {
        dense_name = format!("{} [dense]", name);
        dense_name.as_str()
    } else {
        name
    };
    let t = acc.t as f64;
    let mean = acc.sum / t;
    let var = (acc.sum2 / t - mean * mean).max(0.0);
    let sd = var.sqrt();
    let rms = (acc.sum2 / t).sqrt();
    ctx.evals(1);
    ctx.begin_case(cfg.clone().set("cell", name).set("cell_n", n));
    {
        // coverage: which family / path the cell belongs to and which regime it is in
        let fam = name.split(' ').next().unwrap_or("?");
        let path = if name.ends_with("merged") { "merged" } else { "streamed" };
        ctx.cover(&format!("cells_{}_{}", fam, path));
        ctx.cover(if exact { "cells_exact_regime" } else if acc.inexact >= 30 { "cells_estimation_regime" } else { "cells_near_exact_regime" });
        ctx.cover_n("trials_judged", acc.t);
    }
    if exact {
        if acc.max_abs > 1e-12 {
            ctx.violation("exact regime: estimate != number of distinct items", format!("{} n={}: max |est/n - 1| = {}", name, n, acc.max_abs));
        }
    } else {
        // sampling noise of the mean: the sample sd, but never less than the advertised one -- in cells decided by a
        // rare event (a sampling sketch that retains an item once in a hundred trials) the sample sd of a few
        // hundred trials can be 0 while the estimator is perfectly unbiased
        let bias_tol = bias_mat * rse_adv + 6.0 * sd.max(rse_adv) / t.sqrt();
        if bias_tol > 0.0 {
            ctx.cover_max("worst_bias_over_tolerance", mean.abs() / bias_tol);
            if rse_adv > 0.0 && acc.inexact >= 30 {
                ctx.cover_max("worst_bias_over_rse_in_estimation_regime", mean.abs() / rse_adv);
            }
        }
        if mean.abs() > bias_tol {
            ctx.violation(
                "estimate is biased beyond sampling noise",
                format!("{} n={}: mean relative error {:+.5} over {} trials (sd {:.5}), tolerance {:.5} = {} x advertised RSE {:.5} + 6 max(sd, RSE)/sqrt(T)", name, n, mean, acc.t, sd, bias_tol, bias_mat, rse_adv),
            );
        }
        // When almost every trial is exact (n far below k), the sample rms is decided by whether or not one rare
        // event (two items sharing a coupon) occurred among the T trials: it is no estimate of the spread. The
        // clause is applied once at least 30 trials deviate; bias and coverage are judged on every cell.
        let spread_tol = 1.25 * rse_adv * (1.0 + 6.0 / (2.0 * t).sqrt());
        if acc.inexact >= 30 && spread_tol > 0.0 {
            ctx.cover_max("worst_rms_over_tolerance", rms / spread_tol);
        }
        if rms > spread_tol && acc.inexact >= 30 {
            ctx.violation(
                "spread of the estimate exceeds the advertised RSE",
                format!("{} n={}: rms relative error {:.5} over {} trials, tolerance {:.5} (advertised RSE {:.5})", name, n, rms, acc.t, spread_tol, rse_adv),
            );
        }
    }
    for s in 0..3 {
        let p0 = NOMINAL[s] - TOL[s];
        let tail = binom_cdf(acc.t, acc.cover[s], p0);
        ctx.cover_max(&format!("worst_coverage_shortfall_{}sigma", s + 1), NOMINAL[s] - acc.cover[s] as f64 / t);
        if tail < 1e-9 {
            ctx.violation(
                "confidence interval covers the truth materially less often than nominal",
                format!("{} n={}: {}-sigma interval covered {} of {} trials ({:.4}), nominal {:.4}, tolerance {:.3} (binomial tail {:.1e})", name, n, s + 1, acc.cover[s], acc.t, acc.cover[s] as f64 / t, NOMINAL[s], TOL[s], tail),
            );
        }
    }
    if stats.len() < 4000 {
        stats.push(
            Json::obj()
                .set("cell", name)
                .set("n", n)
                .set("T", acc.t)
                .set("mean", (mean * 1e6).round() / 1e6)
                .set("rms_over_rse", if rse_adv > 0.0 { ((rms / rse_adv) * 1e3).round() / 1e3 } else { 0.0 })
                .set("cov", vec![acc.cover[0] as f64 / t, acc.cover[1] as f64 / t, acc.cover[2] as f64 / t]),
        );
    }
}

fn nested(b: &[f64; 7]) -> bool {
    let tol = 1e-12 * b[0].abs().max(1.0);
    b.iter().all(|x| x.is_finite() && *x >= 0.0) && b[3] <= b[2] + tol && b[2] <= b[1] + tol && b[1] <= b[0] + tol && b[0] <= b[4] + tol && b[4] <= b[5] + tol && b[5] <= b[6] + tol
}

fn det_check(ctx: &mut Ctx, what: &str, n: u64, b: &[f64; 7], empty: bool) {
    ctx.evals(1);
    if !nested(b) {
        ctx.violation("bounds not nested around the estimate", format!("{} n={}: est/lb1-3/ub1-3 = {:?}", what, n, b));
    }
    if n == 0 && (b[0] != 0.0 || b[6] != 0.0 || !empty) {
        ctx.violation("empty sketch does not report 0", format!("{}: {:?} empty={}", what, b, empty));
    }
    if n > 0 && empty {
        ctx.violation("sketch that was offered items reports empty", format!("{} n={}", what, n));
    }
}

fn same7(a: &[f64; 7], b: &[f64; 7]) -> bool {
    a.iter().zip(b.iter()).all(|(x, y)| rel_close(*x, *y, 1e-12))
}

// ------------------------------------------------------------------------------------------------

fn hll_b(s: &HllSketch) -> [f64; 7] {
    [s.estimate(), s.lower_bound(SDS[0]), s.lower_bound(SDS[1]), s.lower_bound(SDS[2]), s.upper_bound(SDS[0]), s.upper_bound(SDS[1]), s.upper_bound(SDS[2])]
}

/// Half-widths of the HLL intervals against the advertised RSE of the estimator in use (HIP 0.8326/sqrt(k) for a
/// sketch that saw its stream in order, 1.039/sqrt(k) for a union result), array regime only (n >= k).
fn width_check(ctx: &mut Ctx, lg_k: u8, n: u64, b: &[f64; 7], factor: f64, path: &str) {
    let k = (1u64 << lg_k) as f64;
    if (n as f64) < k || b[0] <= 0.0 {
        return;
    }
    let adv = factor / k.sqrt();
    for s in 0..3 {
        let sd = (s + 1) as f64;
        let up = (b[4 + s] / b[0] - 1.0) / sd / adv;
        let lo = (1.0 - b[1 + s] / b[0]) / sd / adv;
        let grp = if lg_k >= 13 { "lg_k>=13" } else { "lg_k<=12" };
        ctx.cover_max(&format!("width_over_rse_max_{}_{}", grp, path), up.max(lo));
        ctx.cover_max(&format!("width_over_rse_negmin_{}_{}", grp, path), -(up.min(lo)));
        // above lg_k 12 the bounds are est / (1 -+ s * RSE): the ratio is 1 up to a term s * RSE (observed
        // 0.976..1.025); up to lg_k 12 they come from empirical quantile tables (observed 0.60..1.45)
        let (lo_ok, hi_ok) = if lg_k >= 13 { (0.93, 1.07) } else { (0.5, 1.7) };
        ctx.evals(1);
        if up.min(lo) < lo_ok || up.max(lo) > hi_ok {
            ctx.violation(
                "interval half-width inconsistent with the advertised RSE",
                format!("HLL lg_k={} {} n={}: {}-sigma half-widths {:.3} (upper) / {:.3} (lower) x advertised RSE {:.5}; est {} lb {} ub {}", lg_k, path, n, s + 1, up, lo, adv, b[0], b[1 + s], b[4 + s]),
            );
            return;
        }
    }
}

fn hll_config(ctx: &mut Ctx, case: &Json, stats: &mut Vec<Json>) {
    let lg_k = case.u64("lg_k").unwrap_or(8) as u8;
    let t = [HllType::Hll4, HllType::Hll6, HllType::Hll8][(case.u64("type").unwrap_or(2) % 3) as usize];
    let trials = case.u64("trials").unwrap_or(400);
    let n_max = case.u64("n_max").unwrap_or(65536);
    let mut rng = Rng::new(case.u64("seed").unwrap_or(0));
    let cps = checkpoints(n_max);
    let k = (1u64 << lg_k) as f64;
    let mut acc_stream = vec![Acc::default(); cps.len()];
    let mut acc_merged = vec![Acc::default(); cps.len()];
    for _trial in 0..trials {
        let salt = rng.next_u64();
        let mut s = HllSketch::new(lg_k, t);
        // merged path: 2..4 overlapping parts with random lg_k >= target and random types
        let parts_n = rng.usize(2, 4);
        let mut parts: Vec<HllSketch> = (0..parts_n)
            .map(|_| HllSketch::new(rng.range(lg_k as u64, (lg_k as u64 + 2).min(21)) as u8, *rng.pick(&[HllType::Hll4, HllType::Hll6, HllType::Hll8])))
            .collect();
        let roundtrip = rng.chance(0.34);
        det_check(ctx, &format!("HLL lg_k={} {}", lg_k, tname(t)), 0, &hll_b(&s), s.is_empty());
        let mut ci = 0;
        for i in 0..n_max {
            let item = (salt, i);
            s.update(item);
            let p = (i as usize) % parts_n;
            parts[p].update(item);
            if i % 3 == 0 {
                parts[(p + 1) % parts_n].update(item); // overlap
            }
            let n = i + 1;
            if ci < cps.len() && n == cps[ci] {
                // streamed (a third of the trials is queried through a serialize/deserialize round trip)
                let b = if roundtrip {
                    let d = HllSketch::deserialize(&s.serialize()).expect("own image must deserialize");
                    let bd = hll_b(&d);
                    if !same7(&bd, &hll_b(&s)) {
                        ctx.violation("deserialized sketch reports other estimates", format!("HLL lg_k={} {} n={}", lg_k, tname(t), n));
                    }
                    bd
                } else {
                    hll_b(&s)
                };
                det_check(ctx, &format!("HLL lg_k={} {} streamed", lg_k, tname(t)), n, &b, s.is_empty());
                width_check(ctx, lg_k, n, &b, 0.8326, "streamed");
                acc_stream[ci].add(n, &b);
                // merged
                if ci % 2 == 0 || cps[ci] <= 64 {
                    let mut u = HllUnion::new(lg_k);
                    if _trial % 4 == 1 && lg_k >= 7 {
                        // the union has had another job before: a coarser operand, then reset() -- a reset union is a new one
                        let mut coarse = HllSketch::new(lg_k - 3, t);
                        for j in 0..(40u64 << (lg_k - 3)) {
                            coarse.update((salt ^ 0x5a5a, j));
                        }
                        u.update(&coarse);
                        u.reset();
                    }
                    for p in &parts {
                        u.update(p);
                    }
                    let r = u.to_sketch(t);
                    if r.lg_config_k() != lg_k {
                        ctx.violation(
                            "union result is coarser than lg_max_k and its inputs allow",
                            format!("HLL lg_k={} {} n={}: result has lg_k {}", lg_k, tname(t), n, r.lg_config_k()),
                        );
                    }
                    let bu = hll_b(&r);
                    let ub = [u.estimate(), u.lower_bound(SDS[0]), u.lower_bound(SDS[1]), u.lower_bound(SDS[2]), u.upper_bound(SDS[0]), u.upper_bound(SDS[1]), u.upper_bound(SDS[2])];
                    if !same7(&bu, &ub) {
                        ctx.violation("union and to_sketch report different estimates", format!("HLL lg_k={} {} n={}: {:?} vs {:?}", lg_k, tname(t), n, bu, ub));
                    }
                    det_check(ctx, &format!("HLL lg_k={} {} merged", lg_k, tname(t)), n, &bu, r.is_empty());
                    width_check(ctx, lg_k, n, &bu, 1.039, "merged");
                    acc_merged[ci].add(n, &bu);
                }
                ci += 1;
            }
        }
    }
    for (ci, &n) in cps.iter().enumerate() {
        let nf = n as f64;
        // coupon regime (list/set): essentially exact counting; array regime: HIP / composite
        // (below lg_k 8 there is no coupon set: the 8-entry list is promoted straight to the register array)
        let sparse = if lg_k < 8 { nf < 8.0 } else { nf < k / 8.0 * 0.75 };
        let rse_hip = if sparse { (0.409 / 8192.0f64).max(1e-4) * 4.0 } else { 0.8326 / k.sqrt() };
        let rse_non = if sparse { (0.409 / 8192.0f64).max(1e-4) * 4.0 } else { 1.039 / k.sqrt() };
        judge_cell(ctx, case, &format!("HLL lg_k={} {} streamed", lg_k, tname(t)), n, &acc_stream[ci], rse_hip, BIAS_MAT, false, stats);
        judge_cell(ctx, case, &format!("HLL lg_k={} {} merged", lg_k, tname(t)), n, &acc_merged[ci], rse_non, BIAS_MAT, false, stats);
    }
}

fn cpc_b(s: &CpcSketch) -> [f64; 7] {
    [s.estimate(), s.lower_bound(SDS[0]), s.lower_bound(SDS[1]), s.lower_bound(SDS[2]), s.upper_bound(SDS[0]), s.upper_bound(SDS[1]), s.upper_bound(SDS[2])]
}

fn cpc_config(ctx: &mut Ctx, case: &Json, stats: &mut Vec<Json>) {
    let lg_k = case.u64("lg_k").unwrap_or(8) as u8;
    let trials = case.u64("trials").unwrap_or(400);
    let n_max = case.u64("n_max").unwrap_or(65536);
    let mut rng = Rng::new(case.u64("seed").unwrap_or(0));
    let cps = checkpoints(n_max);
    let k = (1u64 << lg_k) as f64;
    let mut acc_stream = vec![Acc::default(); cps.len()];
    let mut acc_merged = vec![Acc::default(); cps.len()];
    for trial in 0..trials {
        let salt = rng.next_u64();
        let mut s = CpcSketch::new(lg_k);
        // a copy that is written and read back at three early checkpoints and then keeps receiving the stream: its
        // estimator state (KxP, HIP) must go on exactly like the original's
        let mut revived: Option<CpcSketch> = None;
        // a union result taken mid-stream that keeps receiving the stream: it holds the same set of coupons as `s`
        let mut continued: Option<CpcSketch> = None;
        let parts_n = rng.usize(2, 3);
        let mut parts: Vec<CpcSketch> = (0..parts_n).map(|_| CpcSketch::new(rng.range(lg_k as u64, lg_k as u64 + 1) as u8)).collect();
        det_check(ctx, &format!("CPC lg_k={}", lg_k), 0, &cpc_b(&s), s.is_empty());
        let mut ci = 0;
        for i in 0..n_max {
            let item = (salt, i);
            s.update(item);
            if let Some(r) = revived.as_mut() {
                r.update(item);
            }
            if let Some(c) = continued.as_mut() {
                c.update(item);
            }
            let p = (i as usize) % parts_n;
            parts[p].update(item);
            if i % 4 == 0 {
                parts[(p + 1) % parts_n].update(item);
            }
            let n = i + 1;
            if ci < cps.len() && n == cps[ci] {
                let b = cpc_b(&s);
                if trial < 48 {
                    if let Some(r) = &revived {
                        ctx.evals(1);
                        if !same7(&cpc_b(r), &b) {
                            ctx.violation(
                                "a sketch read back from its image drifts from the original under the same further updates",
                                format!("CPC lg_k={} n={}: original {:?} revived {:?}", lg_k, n, b, cpc_b(r)),
                            );
                            revived = None;
                        }
                    }
                    if [2usize, 9, 14, 21].contains(&ci) {
                        revived = CpcSketch::deserialize(&s.serialize()).ok();
                    }
                    if let Some(c) = &continued {
                        ctx.evals(1);
                        if c.num_coupons() != s.num_coupons() {
                            ctx.violation(
                                "a union result that keeps receiving the stream loses coupons",
                                format!("CPC lg_k={} n={}: {} coupons, a sketch of the same items has {}", lg_k, n, c.num_coupons(), s.num_coupons()),
                            );
                            continued = None;
                        }
                    }
                }
                det_check(ctx, &format!("CPC lg_k={} streamed", lg_k), n, &b, s.is_empty());
                acc_stream[ci].add(n, &b);
                if ci % 4 == 1 {
                    // wrapper and deserialized copy answer like the sketch
                    let img = s.serialize();
                    let d = CpcSketch::deserialize(&img).expect("own image must deserialize");
                    let w = CpcWrapper::new(&img).expect("own image must be readable by CpcWrapper");
                    let wb = [w.estimate(), w.lower_bound(SDS[0]), w.lower_bound(SDS[1]), w.lower_bound(SDS[2]), w.upper_bound(SDS[0]), w.upper_bound(SDS[1]), w.upper_bound(SDS[2])];
                    if !same7(&cpc_b(&d), &b) || !same7(&wb, &b) {
                        ctx.violation("deserialized sketch / wrapper report other estimates", format!("CPC lg_k={} n={}", lg_k, n));
                    }
                }
                if ci % 2 == 0 || cps[ci] <= 64 {
                    let mut u = CpcUnion::new(lg_k);
                    for p in &parts {
                        u.update(p);
                    }
                    let r = u.to_sketch();
                    let bu = cpc_b(&r);
                    det_check(ctx, &format!("CPC lg_k={} merged", lg_k), n, &bu, r.is_empty());
                    if trial < 48 && continued.is_none() && n as f64 >= 9.0 * k && r.num_coupons() == s.num_coupons() {
                        // (the parts cover every item so far: the result starts with the same coupons as `s`)
                        continued = Some(r.clone());
                    }
                    // the merged estimate is ICON: a deterministic function of (lg_k, C), defined as the n whose
                    // expected coupon count is C. A shift of the approximation is a bias, seen here without noise.
                    let c = r.num_coupons() as u64;
                    if c > 0 && trial < 64 {
                        let want = crate::model::cpc::icon_reference(r.lg_k(), c);
                        let dev = bu[0] / want - 1.0;
                        ctx.evals(1);
                        ctx.cover_max("icon_worst_deviation_over_tolerance", dev.abs() / super::c06::icon_tolerance(r.lg_k(), c));
                        if dev.abs() > super::c06::icon_tolerance(r.lg_k(), c) {
                            ctx.violation(
                                "merged CPC estimate is shifted against the definition of ICON",
                                format!("CPC lg_k={} merged n={}: C {} estimate {} vs {} (relative deviation {:+.2e})", lg_k, n, c, bu[0], want, dev),
                            );
                        }
                    }
                    acc_merged[ci].add(n, &bu);
                }
                ci += 1;
            }
        }
    }
    for (ci, &n) in cps.iter().enumerate() {
        judge_cell(ctx, case, &format!("CPC lg_k={} streamed", lg_k), n, &acc_stream[ci], 0.5887 / k.sqrt(), BIAS_MAT, false, stats);
        judge_cell(ctx, case, &format!("CPC lg_k={} merged", lg_k), n, &acc_merged[ci], 0.6931 / k.sqrt(), BIAS_MAT_ICON, false, stats);
    }
}

fn theta_b(s: &ThetaSketch) -> [f64; 7] {
    [s.estimate(), s.lower_bound(SDS[0]), s.lower_bound(SDS[1]), s.lower_bound(SDS[2]), s.upper_bound(SDS[0]), s.upper_bound(SDS[1]), s.upper_bound(SDS[2])]
}
fn ctheta_b(s: &CompactThetaSketch) -> [f64; 7] {
    [s.estimate(), s.lower_bound(SDS[0]), s.lower_bound(SDS[1]), s.lower_bound(SDS[2]), s.upper_bound(SDS[0]), s.upper_bound(SDS[1]), s.upper_bound(SDS[2])]
}

fn theta_config(ctx: &mut Ctx, case: &Json, stats: &mut Vec<Json>) {
    let lg_k = case.u64("lg_k").unwrap_or(8) as u8;
    let p = case.f64("p").unwrap_or(1.0) as f32;
    let trials = case.u64("trials").unwrap_or(400);
    let n_max = case.u64("n_max").unwrap_or(65536);
    let mut rng = Rng::new(case.u64("seed").unwrap_or(0));
    let mut cps = checkpoints(n_max);
    if p < 1.0 {
        // small n, where "all updates screened out" happens in a large fraction of the trials
        cps.extend([3u64, 5]);
        cps.sort_unstable();
        cps.dedup();
    }
    let k = (1u64 << lg_k) as f64;
    let mut acc = vec![Acc::default(); cps.len()];
    let mut exact_cells = vec![true; cps.len()];
    for _trial in 0..trials {
        let salt = rng.next_u64();
        let mut s = ThetaSketch::builder().lg_k(lg_k).sampling_probability(p).build();
        det_check(ctx, &format!("theta lg_k={} p={}", lg_k, p), 0, &theta_b(&s), s.is_empty());
        let mut ci = 0;
        for i in 0..n_max {
            s.update((salt, i));
            let n = i + 1;
            if ci < cps.len() && n == cps[ci] {
                let b = theta_b(&s);
                det_check(ctx, &format!("theta lg_k={} p={}", lg_k, p), n, &b, s.is_empty());
                if !s.is_estimation_mode() {
                    // exact mode: exactly the number of distinct items
                    if b[0] != n as f64 {
                        ctx.violation("theta sketch in exact mode does not report the distinct count", format!("lg_k={} n={}: {}", lg_k, n, b[0]));
                    }
                } else {
                    exact_cells[ci] = false;
                }
                acc[ci].add(n, &b);
                if ci % 3 == 0 {
                    // compact and deserialized forms answer like the sketch
                    let c = s.compact(ci % 2 == 0);
                    let cb = ctheta_b(&c);
                    let d = CompactThetaSketch::deserialize(&c.serialize()).expect("own image must deserialize");
                    let d4 = CompactThetaSketch::deserialize(&c.serialize_compressed()).expect("own compressed image must deserialize");
                    if !same7(&cb, &b) || !same7(&ctheta_b(&d), &b) || !same7(&ctheta_b(&d4), &b) {
                        ctx.violation(
                            "compact / deserialized theta sketch reports other estimates",
                            format!("lg_k={} p={} n={}: sketch {:?} compact {:?} deserialized {:?}", lg_k, p, n, b, cb, ctheta_b(&d)),
                        );
                    }
                }
                ci += 1;
            }
        }
    }
    for (ci, &n) in cps.iter().enumerate() {
        let nf = n as f64;
        let theta_eff = (p as f64).min(k / nf).min(1.0);
        let rse = if theta_eff >= 1.0 { 0.0 } else { ((1.0 - theta_eff) / (nf * theta_eff)).sqrt() };
        let exact = exact_cells[ci] && p >= 1.0;
        judge_cell(ctx, case, &format!("theta lg_k={} p={}", lg_k, p), n, &acc[ci], rse, BIAS_MAT, exact, stats);
    }
}

pub fn run_case(ctx: &mut Ctx, case: &Json, stats: &mut Vec<Json>) {
    ctx.begin_case(case.clone());
    let r = rt::guard(|| match case.str("family") {
        Some("hll") => hll_config(ctx, case, stats),
        Some("cpc") => cpc_config(ctx, case, stats),
        Some("theta") => theta_config(ctx, case, stats),
        other => ctx.inconclusive(format!("C01: unknown family {:?}", other)),
    });
    if let Err(p) = r {
        ctx.panic_violation("estimator queries", &p);
    }
    let mut fp = Fp::new();
    fp.u64(rt::mix_str(&case.dump()));
    ctx.end_case(fp.get(), true);
}

pub fn run(ctx: &mut Ctx) {
    ctx.note(
        "rule",
        Json::Str(
            "one case = one configuration (family x lg_k x type / sampling p) receiving T independent item sets; each \
             trial streams 65536 distinct items and is observed at n = 0 and at ~33 checkpoints n = round(2^(j/2)), on the \
             streamed sketch (a third of the trials through serialize/deserialize), on the union of 2-4 overlapping part \
             sketches (HLL composite / CPC ICON estimators) and, for theta, on compact and deserialized forms. Every \
             observation: bounds nested, finite, empty <=> n = 0, exact-mode theta == n. Every cell (configuration, \
             path, n): |mean rel. error| <= 0.08 RSE (ICON 0.15) + 6 max(sd, RSE)/sqrt(T); rms <= 1.25 RSE (1 + 6/sqrt(2T)); coverage of the \
             1/2/3-sigma intervals >= nominal - (0.04, 0.025, 0.006) by an exact binomial tail test at 1e-9. \
             distinct = configurations; non-trivial = all"
                .into(),
        ),
    );
    let quick = ctx.quick();
    let trials = ctx.tier_pick(400u64, 6000);
    let lgks_hll: Vec<u64> = if quick { vec![4, 5, 8, 12, 14] } else { (4..=14).collect() };
    let lgks_theta: Vec<u64> = if quick { vec![5, 8, 12, 14] } else { (5..=14).collect() };
    let mut configs: Vec<Json> = vec![];
    for &lg in &lgks_hll {
        for ty in 0..3u64 {
            configs.push(Json::obj().set("family", "hll").set("lg_k", lg).set("type", ty));
        }
        configs.push(Json::obj().set("family", "cpc").set("lg_k", lg));
    }
    for &lg in &lgks_theta {
        for p in [1.0f64, 0.5, 0.1, 0.01] {
            configs.push(Json::obj().set("family", "theta").set("lg_k", lg).set("p", p));
        }
    }
    // every configuration runs to 64k items with T trials; configurations with lg_k <= 8 additionally run a
    // "dense" variant to 128 k items (at least 4096) with proportionally more trials: the estimation regime of a
    // small sketch is reached early, and the advertised RSE there is large, so seeing a bias of a tenth of it
    // takes tens of thousands of trials, which short streams make affordable
    let mut all: Vec<Json> = vec![];
    for c in configs {
        let lg = c.u64("lg_k").unwrap_or(14);
        all.push(c.clone().set("trials", trials).set("n_max", 65536u64));
        let dense_n = (128u64 << lg).clamp(4096, 65536);
        if dense_n < 65536 {
            all.push(c.set("trials", trials * (65536 / dense_n) * 2).set("n_max", dense_n).set("dense", true));
        }
    }
    // the merged CPC estimate against the definition of ICON for every lg_k 4..=14 (one natural coupon order per
    // lg_k, ~250 coupon counts each): the coefficients of the library's approximation are per lg_k
    for lg in 4..=14u64 {
        if (lg as usize) % ctx.nshards == ctx.shard {
            let case = Json::obj().set("lane", "icon").set("lg_k", lg).set("seed", ctx.case_seed("icon", lg));
            super::c06::run_case(ctx, &case);
            ctx.cover("icon_sweep_lg_k");
        }
    }
    // heaviest first, dealt round-robin, so that shards finish together
    all.sort_by_key(|c| std::cmp::Reverse(c.u64("trials").unwrap_or(0) * c.u64("n_max").unwrap_or(0)));
    let mut stats = vec![];
    for (i, c) in all.into_iter().enumerate() {
        if i % ctx.nshards != ctx.shard {
            continue;
        }
        let c = c.set("seed", ctx.case_seed("c01", i as u64));
        run_case(ctx, &c, &mut stats);
        if ctx.samples.is_empty() {
            ctx.sample(c);
        }
    }
    ctx.note("list:cells", Json::Arr(stats));
}

pub fn replay(ctx: &mut Ctx, case: &Json) {
    let mut stats = vec![];
    run_case(ctx, case, &mut stats);
}
