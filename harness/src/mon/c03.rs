//! C03 — HLL union equals the sketch of the combined streams, whatever the input shapes.

use std::collections::BTreeSet;

use datasketches::common::NumStdDev;
use datasketches::hll::{HllSketch, HllType, HllUnion};
use datasketches::verif::HllState;

use super::c02::{bounds_of, check_array_invariants, tname, TYPES};
use crate::model::hll::{self as m};
use crate::rt::{self, rel_close, Ctx, Fp, Json, Rng};

/// What the union must hold, whatever path the library took.
#[derive(Clone)]
pub struct UnionModel {
    pub lg_max_k: u8,
    pub cur_lg: u8,
    pub coupons: BTreeSet<u32>,
    pub regs: Vec<u8>,
    pub saw_array: bool,
    /// distinct virtual items (pool indices) merged so far: the "true" cardinality
    pub items: BTreeSet<u32>,
    /// register values were not drawn from the geometric law of a hash (tall registers planted): the
    /// estimate is then no estimate of the number of items, and the band clause does not apply
    pub artificial: bool,
}

impl UnionModel {
    pub fn new(lg_max_k: u8) -> UnionModel {
        UnionModel {
            lg_max_k,
            cur_lg: lg_max_k,
            coupons: BTreeSet::new(),
            regs: vec![0; 1 << lg_max_k],
            saw_array: false,
            items: BTreeSet::new(),
            artificial: false,
        }
    }
    pub fn add_coupon(&mut self, c: u32) {
        self.coupons.insert(c);
        let slot = (m::coupon_slot(c) as usize) & ((1usize << self.cur_lg) - 1);
        let v = m::coupon_value(c);
        if v > self.regs[slot] {
            self.regs[slot] = v;
        }
    }
    pub fn add_array(&mut self, lg_k: u8, regs: &[u8]) {
        self.saw_array = true;
        let new_lg = self.cur_lg.min(lg_k);
        if new_lg < self.cur_lg {
            self.regs = m::fold_regs(&self.regs, new_lg);
            self.cur_lg = new_lg;
        }
        let folded = m::fold_regs(regs, new_lg);
        for (d, s) in self.regs.iter_mut().zip(folded.iter()) {
            if *s > *d {
                *d = *s;
            }
        }
    }
    pub fn is_empty(&self) -> bool {
        self.coupons.is_empty() && !self.saw_array
    }
}

pub struct Input {
    pub sk: HllSketch,
    pub lg_k: u8,
    pub coupons: Vec<u32>,
    pub regs: Vec<u8>,
    pub is_array: bool,
    pub items: Vec<u32>,
    pub desc: String,
}

fn sketch_from_coupons(lg_k: u8, t: HllType, coupons: &[u32]) -> HllSketch {
    let mut s = HllSketch::new(lg_k, t);
    for &c in coupons {
        s.verif_update_with_coupon(c);
    }
    s
}

/// Build one input sketch from a subset of the pool of virtual items.
pub fn build_input(rng: &mut Rng, pool: &[u32], max_lg: u8) -> Input {
    let lg_k = rng.range(4, max_lg as u64) as u8;
    let t = *rng.pick(&TYPES);
    let k = 1usize << lg_k;
    let n = match rng.below(8) {
        0 => 0,
        1 => rng.usize(1, 7),
        2 | 3 => rng.usize(8, (k / 10).max(9)),
        4 | 5 => rng.usize(k / 4 + 8, k + 8),
        _ => rng.usize(k, 4 * k),
    }
    .min(pool.len());
    let start = rng.usize(0, pool.len() - n);
    let mut items: Vec<u32> = (start as u32..(start + n) as u32).collect();
    rng.shuffle(&mut items);
    let ooo = rng.chance(0.3) && n >= 2;
    let roundtrip = rng.chance(0.35);
    let coupons: Vec<u32> = items.iter().map(|&i| pool[i as usize]).collect();
    let mut sk = if ooo {
        // out-of-order input: the result of a previous union of two halves
        let (a, b) = coupons.split_at(n / 2);
        let ta = *rng.pick(&TYPES);
        let tb = *rng.pick(&TYPES);
        let mut u = HllUnion::new(lg_k);
        u.update(&sketch_from_coupons(lg_k, ta, a));
        u.update(&sketch_from_coupons(lg_k, tb, b));
        u.to_sketch(t)
    } else {
        sketch_from_coupons(lg_k, t, &coupons)
    };
    if roundtrip {
        let bytes = sk.serialize();
        sk = HllSketch::deserialize(&bytes).expect("round trip of a library-written image failed");
    }
    let st = sk.verif_state();
    let regs = m::regs_of_coupons(coupons.iter(), lg_k);
    Input {
        sk,
        lg_k,
        coupons,
        regs,
        is_array: st.mode == 2,
        items,
        desc: format!(
            "lg_k={} {} n={} mode={} ooo_flag={} via_union={} roundtrip={}",
            lg_k,
            tname(t),
            n,
            st.mode,
            st.out_of_order,
            ooo,
            roundtrip
        ),
    }
}

fn dump_coupons(st: &HllState) -> Vec<u32> {
    let mut v: Vec<u32> = st.coupon_table.iter().copied().filter(|&c| c != 0).collect();
    v.sort_unstable();
    v
}

/// Compare a result dump with the union model.
pub fn check_union_state(ctx: &mut Ctx, st: &HllState, model: &UnionModel, t: HllType, what: &str) {
    ctx.evals(1);
    if st.mode < 2 {
        let got = dump_coupons(st);
        let want: Vec<u32> = model.coupons.iter().copied().collect();
        if model.saw_array {
            ctx.violation(
                "union result sparse although an array-mode input was merged",
                format!("{} {}: mode {}", what, tname(t), st.mode),
            );
        } else if got != want || st.coupon_count != want.len() {
            ctx.violation(
                "union coupon set != union of input coupons",
                format!("{} {}: got {} coupons (count {}), want {}", what, tname(t), got.len(), st.coupon_count, want.len()),
            );
        }
    } else {
        if st.lg_k != model.cur_lg {
            ctx.violation(
                "union lg_k != min(lg_max_k, lg_k of array-mode inputs)",
                format!("{} {}: lg_k {} want {}", what, tname(t), st.lg_k, model.cur_lg),
            );
            return;
        }
        if st.registers != model.regs {
            let bad: Vec<(usize, u8, u8)> = st
                .registers
                .iter()
                .zip(model.regs.iter())
                .enumerate()
                .filter(|(_, (a, b))| a != b)
                .map(|(i, (a, b))| (i, *a, *b))
                .take(5)
                .collect();
            ctx.violation(
                "union registers != register-wise max of folded inputs",
                format!("{} {} lg_k={}: (slot, got, want) {:?}", what, tname(t), st.lg_k, bad),
            );
        }
        check_array_invariants(ctx, st, t, what);
    }
}

/// Everything C03 asserts about a union after a step.
pub fn observe(ctx: &mut Ctx, u: &HllUnion, model: &UnionModel, what: &str, fp: &mut Fp) {
    let what = what.to_string();
    let g0 = u.verif_gadget_state();
    let mut bs: Vec<[f64; 7]> = vec![];
    for t in TYPES {
        let r = u.to_sketch(t);
        let st = r.verif_state();
        check_union_state(ctx, &st, &model, t, &what);
        ctx.check(r.target_type() == t, "to_sketch returned another target type", || what.clone());
        ctx.check(r.is_empty() == model.is_empty(), "union emptiness != model", || what.clone());
        bs.push(bounds_of(&r));
        fp.u64(st.mode as u64);
        // the result is a sketch like any other: its image must read back as the same state
        match HllSketch::deserialize(&r.serialize()) {
            Ok(d) => {
                let ds = d.verif_state();
                let same = ds.mode == st.mode && ds.lg_k == st.lg_k && ds.registers == st.registers && dump_coupons(&ds) == dump_coupons(&st);
                ctx.check(same, "union result changes in a serialize/deserialize round trip", || format!("{} to_sketch({})", what, tname(t)));
            }
            Err(e) => ctx.violation("union result's own image does not deserialize", format!("{} to_sketch({}): {}", what, tname(t), e)),
        }
    }
    // to_sketch must not change the union
    let g1 = u.verif_gadget_state();
    ctx.check(g0 == g1, "to_sketch changed the union", || what.clone());
    check_union_state(ctx, &g1, &model, HllType::Hll8, &format!("{} (gadget)", what));
    // estimate and bounds independent of the requested type, and equal to the union's own
    let ub = [
        u.estimate(),
        u.lower_bound(NumStdDev::One),
        u.lower_bound(NumStdDev::Two),
        u.lower_bound(NumStdDev::Three),
        u.upper_bound(NumStdDev::One),
        u.upper_bound(NumStdDev::Two),
        u.upper_bound(NumStdDev::Three),
    ];
    bs.push(ub);
    ctx.evals(1);
    'cmp: for i in 1..bs.len() {
        for j in 0..7 {
            if !rel_close(bs[0][j], bs[i][j], 1e-12) {
                let names = ["Hll4", "Hll6", "Hll8", "union"];
                ctx.violation(
                    "union estimate/bounds depend on the requested target type",
                    format!(
                        "{}: component {} (0=est,1-3=lb,4-6=ub) {}={:?} vs {}={:?}",
                        what, j, names[0], bs[0], names[i], bs[i]
                    ),
                );
                break 'cmp;
            }
        }
    }
    // never zero for non-empty inputs; inside a wide band around the true cardinality
    if !model.is_empty() {
        let n = model.items.len() as f64;
        let k = (1u64 << model.cur_lg) as f64;
        for (i, b) in bs.iter().enumerate() {
            let est = b[0];
            ctx.evals(1);
            if !(est > 0.0) {
                ctx.violation(
                    "union of non-empty inputs reports estimate 0",
                    format!("{}: result #{} (0-2 = Hll4/6/8, 3 = union) estimate {}", what, i, est),
                );
            } else if !model.artificial && (est / n).ln().abs() > 8.0 * 1.04 / k.sqrt() + 3.0 / n {
                // the band is in log space: at k = 16 the error of a correct HLL estimate is far from
                // Gaussian on the high side (a linear 8-sigma band fired once in ~1e5 correct cases)
                ctx.violation(
                    "union estimate outside the 8-RSE band of the true cardinality",
                    format!("{}: result #{} estimate {} true {} lg_k {}", what, i, est, n, model.cur_lg),
                );
            }
        }
    }
}

fn union_case(ctx: &mut Ctx, case: &Json) {
    let mut rng = Rng::new(case.u64("seed").unwrap_or(0));
    let lg_max_k = case.u64("lg_max_k").unwrap_or(8) as u8;
    let max_in_lg = case.u64("max_in_lg").unwrap_or(12) as u8;
    let n_steps = rng.usize(1, 6);
    // pool of virtual items: hash-like coupons (uniform 26-bit slot, geometric value)
    let pool_n = 6usize << max_in_lg.max(lg_max_k);
    // a sixth of the cases plant tall registers (values up to 63, clustered around the places where the
    // library's representation changes: 15 above cur_min, the 2^-32 split of the KxQ sums, the 6-bit limit)
    let tall = case.bool("tall").unwrap_or_else(|| rng.below(6) == 0);
    let lift = *rng.pick(&[0u32, 10, 26, 30, 31, 44, 58]);
    let pool: Vec<u32> = (0..pool_n)
        .map(|_| {
            let mut v = rng.geometric(62) + 1;
            if tall && rng.chance(0.5) {
                v = (v + lift).min(63);
            }
            m::make_coupon(rng.next_u32() & m::KEY_MASK_26, v as u8)
        })
        .collect();
    let mut u = HllUnion::new(lg_max_k);
    let mut model = UnionModel::new(lg_max_k);
    model.artificial = tall;
    if tall {
        ctx.cover("tall_registers_planted");
    }
    let mut since_reset: Vec<usize> = vec![];
    let mut inputs: Vec<Input> = vec![];
    let mut values_since_reset: Vec<u64> = vec![];
    let mut log: Vec<String> = vec![];
    let mut fp = Fp::new();
    fp.u64(lg_max_k as u64);
    let salt = rng.next_u64();
    for step in 0..n_steps {
        match rng.below(10) {
            0 => {
                u.reset();
                model = UnionModel::new(lg_max_k);
                model.artificial = tall;
                since_reset.clear();
                values_since_reset.clear();
                log.push("reset".into());
                ctx.cover("op_reset");
            }
            1 | 2 => {
                let n = rng.usize(1, 40);
                for _ in 0..n {
                    let x = rng.below(1 << 20);
                    let item = (salt, x);
                    u.update_value(item);
                    model.add_coupon(m::coupon_of_bytes(&rt::hashed_bytes(&item)));
                    model.items.insert(0x8000_0000 | x as u32);
                    values_since_reset.push(x);
                }
                log.push(format!("update_value x{}", n));
                ctx.cover("op_update_value");
            }
            _ => {
                let inp = build_input(&mut rng, &pool, max_in_lg);
                u.update(&inp.sk);
                if inp.is_array {
                    model.add_array(inp.lg_k, &inp.regs);
                    ctx.cover("input_array");
                } else {
                    for &c in &inp.coupons {
                        model.add_coupon(c);
                    }
                    ctx.cover(if inp.coupons.is_empty() { "input_empty" } else { "input_sparse" });
                }
                if inp.sk.verif_state().out_of_order {
                    ctx.cover("input_out_of_order");
                }
                for &i in &inp.items {
                    model.items.insert(i);
                }
                log.push(format!("update({})", inp.desc));
                since_reset.push(inputs.len());
                inputs.push(inp);
            }
        }
        // observe after every step
        let what = format!("lg_max_k={} step {} [{}]", lg_max_k, step, log.join("; "));
        observe(ctx, &u, &model, &what, &mut fp);
    }
    // order / repetition independence: replay the inputs since the last reset, permuted and repeated
    if !since_reset.is_empty() {
        let mut order: Vec<usize> = since_reset.clone();
        let extra: Vec<usize> = (0..rng.usize(0, 3)).map(|_| *rng.pick(&since_reset)).collect();
        order.extend(extra);
        rng.shuffle(&mut order);
        let mut u2 = HllUnion::new(lg_max_k);
        let mut vals = values_since_reset.clone();
        rng.shuffle(&mut vals);
        let split = if vals.is_empty() { 0 } else { rng.usize(0, vals.len()) };
        for &x in &vals[..split] {
            u2.update_value((salt, x));
        }
        for &i in &order {
            u2.update(&inputs[i].sk);
        }
        for &x in &vals[split..] {
            u2.update_value((salt, x));
        }
        let a = u.to_sketch(HllType::Hll8).verif_state();
        let b = u2.to_sketch(HllType::Hll8).verif_state();
        check_union_state(ctx, &b, &model, HllType::Hll8, "permuted union");
        let same = a.lg_k == b.lg_k
            && if a.mode < 2 && b.mode < 2 {
                dump_coupons(&a) == dump_coupons(&b)
            } else if a.mode == 2 && b.mode == 2 {
                a.registers == b.registers
            } else {
                false
            };
        ctx.check(same, "union result depends on input order or repetition", || {
            format!("lg_max_k={} [{}] order {:?}: lg_k {} vs {}, mode {} vs {}", lg_max_k, log.join("; "), order, a.lg_k, b.lg_k, a.mode, b.mode)
        });
        ctx.cover("permutation_checks");
    }
    if ctx.samples.len() < 2 {
        let steps: Vec<Json> = log.iter().map(|l| Json::Str(l.clone())).collect();
        ctx.sample(Json::obj().set("case", case.clone()).set("steps", Json::Arr(steps)).set("true_cardinality", model.items.len()));
    }
    fp.u64(model.items.len() as u64);
    fp.u64(case.u64("seed").unwrap_or(0));
    ctx.cover(&format!("lg_max_k_{}", lg_max_k));
    ctx.end_case(fp.get(), !model.is_empty());
}


/// Explicit, generator-independent histories (also the witnesses of fixed findings).
pub const SCENARIOS: [&str; 4] = [
    "deserialized_list_then_update",
    "deserialized_empty_then_update",
    "ooo_input_into_empty_union",
    "to_sketch_types_after_array_merge",
];

fn hashlike(rng: &mut Rng, n: usize) -> Vec<u32> {
    (0..n).map(|_| m::make_coupon(rng.next_u32() & m::KEY_MASK_26, (rng.geometric(62) + 1) as u8)).collect()
}

fn scenario_case(ctx: &mut Ctx, case: &Json) {
    let name = case.str("name").unwrap_or("").to_string();
    let mut rng = Rng::new(case.u64("seed").unwrap_or(7));
    let mut fp = Fp::new();
    fp.u64(rt::mix_str(&name));
    for lg_k in [4u8, 7, 8, 10, 12] {
        for t in TYPES {
            let mut u = HllUnion::new(lg_k);
            let mut model = UnionModel::new(lg_k);
            let mut n_items = 0u32;
            let add_sparse = |model: &mut UnionModel, cs: &[u32], n_items: &mut u32| {
                for &c in cs {
                    model.add_coupon(c);
                    model.items.insert(*n_items);
                    *n_items += 1;
                }
            };
            match name.as_str() {
                "deserialized_list_then_update" | "deserialized_empty_then_update" => {
                    let n = if name.starts_with("deserialized_list") { rng.usize(1, 6) } else { 0 };
                    let cs = hashlike(&mut rng, n);
                    let sk = sketch_from_coupons(lg_k, t, &cs);
                    let sk = HllSketch::deserialize(&sk.serialize()).expect("round trip failed");
                    u.update(&sk);
                    add_sparse(&mut model, &cs, &mut n_items);
                    observe(ctx, &u, &model, &format!("scenario {} lg_k={} {} after update(deserialized)", name, lg_k, tname(t)), &mut fp);
                    // the deserialized sketch itself must keep accepting updates
                    let mut sk2 = sk.clone();
                    let more = hashlike(&mut rng, 12);
                    for (i, &c) in more.iter().enumerate() {
                        sk2.verif_update_with_coupon(c);
                        let mut u2 = HllUnion::new(lg_k);
                        u2.update(&sk2);
                        let mut m2 = UnionModel::new(lg_k);
                        let st = sk2.verif_state();
                        if st.mode == 2 {
                            let all: Vec<u32> = cs.iter().chain(more[..=i].iter()).copied().collect();
                            m2.add_array(lg_k, &m::regs_of_coupons(all.iter(), lg_k));
                        } else {
                            for &c in cs.iter().chain(more[..=i].iter()) {
                                m2.add_coupon(c);
                            }
                        }
                        for j in 0..(cs.len() + i + 1) {
                            m2.items.insert(j as u32);
                        }
                        observe(ctx, &u2, &m2, &format!("scenario {} lg_k={} {} sketch updated {} times after deserialize", name, lg_k, tname(t), i + 1), &mut fp);
                    }
                    for j in 0..20u64 {
                        let item = (0xabcdu64, j);
                        u.update_value(item);
                        model.add_coupon(m::coupon_of_bytes(&rt::hashed_bytes(&item)));
                        model.items.insert(1000 + j as u32);
                        observe(ctx, &u, &model, &format!("scenario {} lg_k={} {} after {} update_value", name, lg_k, tname(t), j + 1), &mut fp);
                    }
                }
                "ooo_input_into_empty_union" => {
                    let k = 1usize << lg_k;
                    let a = hashlike(&mut rng, 2 * k);
                    let b = hashlike(&mut rng, 2 * k);
                    let mut h = HllUnion::new(lg_k);
                    h.update(&sketch_from_coupons(lg_k, t, &a));
                    h.update(&sketch_from_coupons(lg_k, t, &b));
                    let ooo = h.to_sketch(t);
                    ctx.check(ooo.verif_state().out_of_order, "scenario precondition: helper union result not out-of-order", || name.clone());
                    u.update(&ooo);
                    let all: Vec<u32> = a.iter().chain(b.iter()).copied().collect();
                    model.add_array(lg_k, &m::regs_of_coupons(all.iter(), lg_k));
                    for j in 0..all.len() {
                        model.items.insert(j as u32);
                    }
                    observe(ctx, &u, &model, &format!("scenario {} lg_k={} {}", name, lg_k, tname(t)), &mut fp);
                }
                _ => {
                    let k = 1usize << lg_k;
                    let a = hashlike(&mut rng, 3 * k);
                    let b = hashlike(&mut rng, k);
                    u.update(&sketch_from_coupons(lg_k, t, &a));
                    model.add_array(lg_k, &m::regs_of_coupons(a.iter(), lg_k));
                    for j in 0..a.len() {
                        model.items.insert(j as u32);
                    }
                    observe(ctx, &u, &model, &format!("scenario {} lg_k={} {} one input", name, lg_k, tname(t)), &mut fp);
                    u.update(&sketch_from_coupons(lg_k, *rng.pick(&TYPES), &b));
                    model.add_array(lg_k, &m::regs_of_coupons(b.iter(), lg_k));
                    for j in 0..b.len() {
                        model.items.insert((a.len() + j) as u32);
                    }
                    observe(ctx, &u, &model, &format!("scenario {} lg_k={} {} two inputs", name, lg_k, tname(t)), &mut fp);
                }
            }
        }
    }
    ctx.cover(&format!("scenario_{}", name));
    ctx.end_case(fp.get(), true);
}

pub fn run_case(ctx: &mut Ctx, case: &Json) {
    ctx.begin_case(case.clone());
    let r = rt::guard(|| match case.str("lane") {
        Some("union") => union_case(ctx, case),
        Some("scenario") => scenario_case(ctx, case),
        other => ctx.inconclusive(format!("C03: unknown lane {:?}", other)),
    });
    if let Err(p) = r {
        ctx.panic_violation("HllUnion", &p);
    }
}

pub fn run(ctx: &mut Ctx) {
    ctx.note(
        "rule",
        Json::Str(
            "one case = one union history: lg_max_k 4..=14 and 1..6 steps drawn from update(sketch over lg_k 4..=14 x \
             Hll4/6/8 x empty/list/set/array x fresh/round-tripped x in-order/out-of-order), update_value, reset; after \
             every step to_sketch(Hll4|Hll6|Hll8) and the gadget are dumped and compared with the fold/max model. \
             distinct = fingerprint of (lg_max_k, modes seen, true cardinality, seed); non-trivial = non-empty union"
                .into(),
        ),
    );
    if ctx.shard == 0 {
        for name in SCENARIOS {
            run_case(ctx, &Json::obj().set("lane", "scenario").set("name", name).set("seed", ctx.seed));
        }
    }
    let n = ctx.tier_pick(2000u64, 100_000);
    let max_lg = ctx.tier_pick(12u64, 14);
    let mut rng = ctx.rng("cases");
    for i in 0..n {
        let lg_max_k = rng.range(4, 14);
        let case = Json::obj()
            .set("lane", "union")
            .set("lg_max_k", lg_max_k)
            .set("max_in_lg", if lg_max_k > 12 || rng.chance(0.15) { 14 } else { max_lg })
            .set("seed", ctx.case_seed("union", i));
        run_case(ctx, &case);
    }
}

pub fn replay(ctx: &mut Ctx, case: &Json) {
    run_case(ctx, case);
}
