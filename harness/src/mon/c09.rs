//! C09 — Bloom filter: no false negatives; bits are exactly the reference hash positions.

use std::collections::BTreeSet;

use datasketches::bloom::{BloomFilter, BloomFilterBuilder};

use crate::refhash;
use crate::rt::{self, Ctx, Fp, Json, Rng};

#[derive(Clone)]
pub struct BloomModel {
    pub bits: Vec<u64>,
    pub num_hashes: u16,
    pub seed: u64,
    /// items (domain indices) that are guaranteed to be reported as contained
    pub must: BTreeSet<u64>,
}

impl BloomModel {
    pub fn new(num_bits: u64, num_hashes: u16, seed: u64) -> BloomModel {
        BloomModel { bits: vec![0; num_bits.div_ceil(64) as usize], num_hashes, seed, must: BTreeSet::new() }
    }
    pub fn capacity(&self) -> u64 {
        self.bits.len() as u64 * 64
    }
    pub fn positions(&self, bytes: &[u8]) -> Vec<u64> {
        let h0 = refhash::xxh64(bytes, self.seed);
        let h1 = refhash::xxh64(bytes, h0);
        let cap = self.capacity();
        (1..=self.num_hashes as u64).map(|i| (h0.wrapping_add(i.wrapping_mul(h1)) >> 1) % cap).collect()
    }
    pub fn member(&self, bytes: &[u8]) -> bool {
        self.positions(bytes).iter().all(|&p| self.bits[(p / 64) as usize] >> (p % 64) & 1 == 1)
    }
    pub fn insert(&mut self, idx: u64, bytes: &[u8]) {
        for p in self.positions(bytes) {
            self.bits[(p / 64) as usize] |= 1u64 << (p % 64);
        }
        self.must.insert(idx);
    }
    pub fn popcount(&self) -> u64 {
        self.bits.iter().map(|w| w.count_ones() as u64).sum()
    }
}

/// bit array as stored in the image (an empty filter's image carries none)
pub fn bits_from_image(img: &[u8], words: usize) -> Option<Vec<u64>> {
    if img.len() < 24 {
        return None;
    }
    let empty = img[3] & 4 != 0;
    if empty {
        return if img.len() == 24 { Some(vec![0; words]) } else { None };
    }
    if img.len() != 32 + 8 * words {
        return None;
    }
    Some((0..words).map(|w| u64::from_le_bytes(img[32 + 8 * w..40 + 8 * w].try_into().unwrap())).collect())
}

/// variable-length items: their Hash impls feed the hasher in several writes of assorted sizes
fn var_bytes(i: u64, salt: u64) -> Vec<u8> {
    let len = (crate::rt::mix(&[i, salt]) % 101) as usize;
    (0..len).map(|j| (i.wrapping_mul(31).wrapping_add(j as u64 * 7) ^ salt) as u8).collect()
}
fn var_string(i: u64, salt: u64) -> String {
    let len = (crate::rt::mix(&[i, salt, 1]) % 71) as usize;
    (0..len).map(|j| (b'a' + ((i + j as u64 * 3 + salt) % 26) as u8) as char).collect()
}

fn item(i: u64, salt: u64, kind: u64) -> Vec<u8> {
    // returns the hashed byte sequence; the same item is passed to the filter by the caller
    match kind {
        0 => rt::hashed_bytes(&(salt, i)),
        1 => rt::hashed_bytes(&format!("bloom-{}-{}", salt % 1000, i).as_str()),
        2 => rt::hashed_bytes(&(i.wrapping_mul(0x9E3779B97F4A7C15) ^ salt)),
        3 => rt::hashed_bytes(&var_bytes(i, salt)),
        4 => rt::hashed_bytes(&var_string(i, salt)),
        _ => rt::hashed_bytes(&(salt, i, !i, salt ^ i)),
    }
}

fn f_insert(f: &mut BloomFilter, i: u64, salt: u64, kind: u64) {
    match kind {
        0 => f.insert((salt, i)),
        1 => f.insert(format!("bloom-{}-{}", salt % 1000, i).as_str()),
        2 => f.insert(i.wrapping_mul(0x9E3779B97F4A7C15) ^ salt),
        3 => f.insert(var_bytes(i, salt)),
        4 => f.insert(var_string(i, salt)),
        _ => f.insert((salt, i, !i, salt ^ i)),
    }
}
fn f_contains(f: &BloomFilter, i: u64, salt: u64, kind: u64) -> bool {
    match kind {
        0 => f.contains(&(salt, i)),
        1 => f.contains(&format!("bloom-{}-{}", salt % 1000, i).as_str()),
        2 => f.contains(&(i.wrapping_mul(0x9E3779B97F4A7C15) ^ salt)),
        3 => f.contains(&var_bytes(i, salt)),
        4 => f.contains(&var_string(i, salt)),
        _ => f.contains(&(salt, i, !i, salt ^ i)),
    }
}
fn f_contains_and_insert(f: &mut BloomFilter, i: u64, salt: u64, kind: u64) -> bool {
    match kind {
        0 => f.contains_and_insert(&(salt, i)),
        1 => f.contains_and_insert(&format!("bloom-{}-{}", salt % 1000, i).as_str()),
        2 => f.contains_and_insert(&(i.wrapping_mul(0x9E3779B97F4A7C15) ^ salt)),
        3 => f.contains_and_insert(&var_bytes(i, salt)),
        4 => f.contains_and_insert(&var_string(i, salt)),
        _ => f.contains_and_insert(&(salt, i, !i, salt ^ i)),
    }
}

fn check_filter(ctx: &mut Ctx, f: &BloomFilter, m: &BloomModel, num_bits: u64, salt: u64, kind: u64, what: &str, probe: &[u64]) {
    ctx.evals(1);
    let tag = format!("{} [bits {} hashes {} seed {}]", what, num_bits, m.num_hashes, m.seed);
    let img = f.serialize();
    match bits_from_image(&img, m.bits.len()) {
        None => ctx.violation("serialized image has an unexpected length", format!("{}: {} bytes", tag, img.len())),
        Some(bits) => {
            if bits != m.bits {
                let bad: Vec<String> = bits
                    .iter()
                    .zip(m.bits.iter())
                    .enumerate()
                    .filter(|(_, (a, b))| a != b)
                    .take(3)
                    .map(|(w, (a, b))| format!("word {} got {:016x} want {:016x}", w, a, b))
                    .collect();
                ctx.violation("bit array != model bit array", format!("{}: {}", tag, bad.join("; ")));
            }
        }
    }
    let pc = m.popcount();
    if f.bits_used() != pc {
        ctx.violation("bits_used != population count", format!("{}: {} want {}", tag, f.bits_used(), pc));
    }
    if f.capacity() as u64 != 64 * num_bits.div_ceil(64) {
        ctx.violation("capacity != 64*ceil(bits/64)", format!("{}: {}", tag, f.capacity()));
    }
    if f.is_empty() != (pc == 0) {
        ctx.violation("is_empty disagrees with population count", format!("{}: is_empty {} popcount {}", tag, f.is_empty(), pc));
    }
    if f.num_hashes() != m.num_hashes || f.seed() != m.seed {
        ctx.violation("configuration changed", format!("{}: hashes {} seed {}", tag, f.num_hashes(), f.seed()));
    }
    // no false negatives
    let mut n = 0;
    for &i in m.must.iter() {
        n += 1;
        if !f_contains(f, i, salt, kind) {
            ctx.violation("false negative: an inserted item is not contained", format!("{}: item #{}", tag, i));
            break;
        }
    }
    // membership of arbitrary probes equals the model's
    for &i in probe {
        n += 1;
        let want = m.member(&item(i, salt, kind));
        if f_contains(f, i, salt, kind) != want {
            ctx.violation("contains() != all reference positions set", format!("{}: item #{} model {}", tag, i, want));
            break;
        }
    }
    ctx.evals(n);
}

fn history_case(ctx: &mut Ctx, case: &Json) {
    let mut rng = Rng::new(case.u64("seed").unwrap_or(0));
    let num_bits = case.u64("num_bits").unwrap_or(64);
    let num_hashes = case.u64("num_hashes").unwrap_or(3) as u16;
    let n_ops = case.u64("n_ops").unwrap_or(100) as usize;
    let seed = *rng.pick(&[9001u64, 0, 1, u64::MAX, 0x1234_5678_9abc_def0]);
    let kind = rng.below(6);
    ctx.cover(&format!("item_kind_{}", kind));
    let salt = rng.next_u64();
    let domain = rng.range(2, (num_bits * 2).clamp(4, 5000));
    let mut a = BloomFilterBuilder::with_size(num_bits, num_hashes).seed(seed).build();
    let mut b = BloomFilterBuilder::with_size(num_bits, num_hashes).seed(seed).build();
    let mut ma = BloomModel::new(num_bits, num_hashes, seed);
    let mut mb = BloomModel::new(num_bits, num_hashes, seed);
    let probes: Vec<u64> = (0..24).map(|_| rng.below(domain * 2)).collect();
    check_filter(ctx, &a, &ma, num_bits, salt, kind, "fresh", &probes);
    let every = (n_ops / 16).max(1);
    for op in 0..n_ops {
        let r = rng.below(100);
        let mut structural = true;
        let what;
        if r < 45 {
            let i = rng.below(domain);
            f_insert(&mut a, i, salt, kind);
            ma.insert(i, &item(i, salt, kind));
            what = "insert";
            structural = false;
            ctx.cover("op_insert");
        } else if r < 60 {
            let i = rng.below(domain);
            let bytes = item(i, salt, kind);
            let want = ma.member(&bytes);
            let got = f_contains_and_insert(&mut a, i, salt, kind);
            ctx.check(got == want, "contains_and_insert() != prior membership in the model", || {
                format!("bits {} hashes {} item #{} got {} want {}", num_bits, num_hashes, i, got, want)
            });
            ma.insert(i, &bytes);
            what = "contains_and_insert";
            structural = false;
            ctx.cover("op_contains_and_insert");
        } else if r < 75 {
            let i = rng.below(domain);
            f_insert(&mut b, i, salt, kind);
            mb.insert(i, &item(i, salt, kind));
            what = "insert into partner";
            structural = false;
        } else if r < 82 {
            a.union(&b);
            for (x, y) in ma.bits.iter_mut().zip(mb.bits.iter()) {
                *x |= *y;
            }
            let add: Vec<u64> = mb.must.iter().copied().collect();
            ma.must.extend(add);
            what = "union";
            ctx.cover("op_union");
        } else if r < 88 {
            a.intersect(&b);
            for (x, y) in ma.bits.iter_mut().zip(mb.bits.iter()) {
                *x &= *y;
            }
            ma.must = ma.must.intersection(&mb.must).copied().collect();
            what = "intersect";
            ctx.cover("op_intersect");
        } else if r < 92 {
            a.invert();
            for x in ma.bits.iter_mut() {
                *x = !*x;
            }
            ma.must.clear();
            what = "invert";
            ctx.cover("op_invert");
        } else if r < 95 {
            a.reset();
            for x in ma.bits.iter_mut() {
                *x = 0;
            }
            ma.must.clear();
            what = "reset";
            ctx.cover("op_reset");
        } else if r < 98 {
            let img = a.serialize();
            match BloomFilter::deserialize(&img) {
                Ok(d) => a = d,
                Err(e) => ctx.violation("a filter's own image does not deserialize", format!("bits {} hashes {}: {}", num_bits, num_hashes, e)),
            }
            what = "serialize/deserialize";
            ctx.cover("op_roundtrip");
        } else {
            std::mem::swap(&mut a, &mut b);
            std::mem::swap(&mut ma, &mut mb);
            what = "swap roles";
        }
        if structural || op % every == every - 1 || num_bits <= 256 {
            check_filter(ctx, &a, &ma, num_bits, salt, kind, &format!("after op {} ({})", op, what), &probes);
        }
    }
    check_filter(ctx, &a, &ma, num_bits, salt, kind, "end", &probes);
    check_filter(ctx, &b, &mb, num_bits, salt, kind, "end (partner)", &probes);
    let mut fp = Fp::new();
    fp.u64(num_bits);
    fp.u64(num_hashes as u64);
    for w in ma.bits.iter().take(32) {
        fp.u64(*w);
    }
    fp.u64(ma.popcount());
    ctx.cover(if num_bits % 64 == 0 { "size_multiple_of_64" } else { "size_not_multiple_of_64" });
    ctx.end_case(fp.get(), ma.popcount() > 0 || mb.popcount() > 0);
}

/// with_accuracy(n, p): the measured false-positive rate, averaged over independently seeded filters
fn fpp_case(ctx: &mut Ctx, case: &Json) {
    let n = case.u64("n").unwrap_or(100);
    let p = case.f64("p").unwrap_or(0.01);
    let filters = case.u64("filters").unwrap_or(20);
    let probes = case.u64("probes").unwrap_or(50_000);
    let mut rng = Rng::new(case.u64("seed").unwrap_or(0));
    let mut rates = vec![];
    for fi in 0..filters {
        let seed = rng.next_u64();
        let salt = rng.next_u64();
        let mut f = BloomFilterBuilder::with_accuracy(n, p).seed(seed).build();
        for i in 0..n {
            f.insert((salt, i));
        }
        // every inserted item is contained
        for i in 0..n {
            if !f.contains(&(salt, i)) {
                ctx.violation("false negative: an inserted item is not contained", format!("with_accuracy({}, {}) filter {} item {}", n, p, fi, i));
                break;
            }
        }
        let mut fp_hits = 0u64;
        for j in 0..probes {
            if f.contains(&(salt, n + 1 + j)) {
                fp_hits += 1;
            }
        }
        rates.push(fp_hits as f64 / probes as f64);
        ctx.evals(n + probes);
    }
    let mean = rates.iter().sum::<f64>() / rates.len() as f64;
    // sampling noise of the mean: binomial part plus filter-to-filter variation (measured)
    let var = rates.iter().map(|r| (r - mean) * (r - mean)).sum::<f64>() / (rates.len() as f64 - 1.0).max(1.0);
    let se = (var / rates.len() as f64).sqrt().max((p * (1.0 - p) / (probes * filters) as f64).sqrt());
    let bound = 1.3 * p + 6.0 * se;
    ctx.evals(1);
    if mean > bound {
        ctx.violation(
            "measured false-positive rate of with_accuracy(n, p) is well above p",
            format!("n {} p {}: mean fpp {} over {} filters (se {}), bound 1.3p+6se = {}", n, p, mean, filters, se, bound),
        );
    }
    ctx.note(
        "list:fpp_cells",
        Json::Arr(vec![Json::obj().set("n", n).set("p", p).set("filters", filters).set("probes", probes).set("mean_fpp", mean).set("ratio_to_p", mean / p)]),
    );
    let mut fp = Fp::new();
    fp.u64(n);
    fp.f64(p);
    fp.f64(mean);
    ctx.end_case(fp.get(), true);
}

pub fn run_case(ctx: &mut Ctx, case: &Json) {
    ctx.begin_case(case.clone());
    let r = rt::guard(|| match case.str("lane") {
        Some("history") => history_case(ctx, case),
        Some("fpp") => fpp_case(ctx, case),
        other => ctx.inconclusive(format!("C09: unknown lane {:?}", other)),
    });
    if let Err(p) = r {
        ctx.panic_violation("BloomFilter", &p);
    }
}

pub fn run(ctx: &mut Ctx) {
    ctx.note(
        "rule",
        Json::Str(
            "history lane: one case = one history over insert / contains_and_insert / contains / union / intersect / \
             invert / reset / serialize-deserialize on a filter of 1..=65536 bits (incl. non-multiples of 64), 1..=16 \
             hashes, a seed, with a compatible partner; the bit array parsed from the image is compared with the \
             reference-position model, bits_used with its popcount, and membership of inserted and arbitrary items with \
             the model after every structural operation and at checkpoints; fpp lane: with_accuracy(n,p) cells averaged \
             over >= 20 independently seeded filters. distinct = fingerprint of (size, hashes, final bits); non-trivial \
             = some bit set"
                .into(),
        ),
    );
    let n = ctx.tier_pick(1200u64, 80_000);
    let mut rng = ctx.rng("cases");
    for i in 0..n {
        let num_bits = match rng.below(6) {
            0 => rng.range(1, 70),
            1 => *rng.pick(&[1u64, 2, 63, 64, 65, 127, 128, 129, 4096, 65535, 65536]),
            2 => rng.range(64, 2000),
            _ => rng.range(1, 65536),
        };
        let case = Json::obj()
            .set("lane", "history")
            .set("num_bits", num_bits)
            .set("num_hashes", rng.range(1, 16))
            .set("n_ops", *rng.pick(&[10u64, 100, 600]))
            .set("seed", ctx.case_seed("bloom", i));
        run_case(ctx, &case);
        if i < 2 {
            ctx.sample(case);
        }
    }
    // fpp cells: one per shard
    let cells: [(u64, f64); 6] = [(100, 0.1), (100, 0.01), (100, 0.001), (10_000, 0.1), (10_000, 0.01), (10_000, 0.001)];
    for (ci, (n_items, p)) in cells.iter().enumerate() {
        if ci % ctx.nshards != ctx.shard {
            continue;
        }
        let case = Json::obj()
            .set("lane", "fpp")
            .set("n", *n_items)
            .set("p", *p)
            .set("filters", ctx.tier_pick(20u64, 100))
            .set("probes", ctx.tier_pick(50_000u64, 200_000))
            .set("seed", ctx.case_seed("fpp", ci as u64));
        run_case(ctx, &case);
    }
}

pub fn replay(ctx: &mut Ctx, case: &Json) {
    run_case(ctx, case);
}
