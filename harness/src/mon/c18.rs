//! C18 — sketch size is bounded by configuration, not by stream length.

use datasketches::bloom::BloomFilterBuilder;
use datasketches::common::ResizeFactor;
use datasketches::countmin::CountMinSketch;
use datasketches::cpc::CpcSketch;
use datasketches::frequencies::FrequentItemsSketch;
use datasketches::hll::{HllSketch, HllType, HllUnion};
use datasketches::tdigest::TDigestMut;
use datasketches::theta::ThetaSketch;

use crate::model::cpc as cm;
use crate::rt::{self, Ctx, Fp, Json, Rng};
use crate::spec;

/// item of a stream: distinct / repeated / adversarially ordered
fn stream_item(kind: u64, i: u64, salt: u64) -> u64 {
    match kind {
        0 => i ^ salt,                                  // all distinct
        1 => (i % 1000) ^ salt,                         // heavy repetition
        2 => (i.wrapping_mul(0x9E3779B97F4A7C15)) ^ salt, // distinct, scattered
        _ => (i / 3) ^ salt,                            // each value three times in a row
    }
}

/// Size of one HLL image against the mode / type / lg_k the image itself declares. The exception list of an
/// HLL_4 image is bounded too: a register is an exception when it is 15 or more above the minimum register; for
/// hashed items the number of exceptions is close to Poisson with mean about k/2000 once n >> k (simulation of the
/// textbook register law: mean 0.5 at lg_k 10, 2 at 12, 8.5 at 14, maximum 18 in 20 runs at lg_k 14). The bound
/// 16 + k/256 is about eight times that mean plus 16 (an HLL_4 sketch whose list grows with the stream has lost
/// its point).
fn hll_image_size(ctx: &mut Ctx, img: &[u8], lg_k: u8, i: u64, what: &str) {
    {
        {
            ctx.evals(1);
            match spec::hll::decode(img) {
                Err(e) => ctx.violation("HLL image does not decode", format!("{} lg_k {} after {} items: {}", what, lg_k, i, e)),
                Ok((im, _)) => {
                    // `lg_k` is what the configuration allows; the image's own lg_k decides its layout
                    if im.lg_k > lg_k {
                        ctx.violation(
                            "HLL image size is not what mode and lg_k dictate",
                            format!("{} after {} items: the image has lg_k {} but the configuration allows at most {}", what, i, im.lg_k, lg_k),
                        );
                        return;
                    }
                    let k = 1usize << im.lg_k;
                    let c = im.coupons.len();
                    let (want, cap_ok) = match im.mode {
                        0 => (8 + 4 * c, c <= 7),
                        1 => (12 + 4 * c, c <= (3 * (k / 8)) / 4),
                        _ => (
                            40 + match im.target_bits {
                                4 => k / 2 + 4 * im.aux.len(),
                                6 => (3 * k) / 4 + 1,
                                _ => k,
                            },
                            true,
                        ),
                    };
                    if img.len() != want || !cap_ok {
                        ctx.violation(
                            "HLL image size is not what mode and lg_k dictate",
                            format!("{} lg_k {} type {} mode {} after {} items: {} bytes, expected {} (coupons {}, aux {})", what, lg_k, im.target_bits, im.mode, i, img.len(), want, c, im.aux.len()),
                        );
                    }
                    if im.aux.len() > 16 + k / 256 {
                        ctx.violation(
                            "HLL_4 exception list grows beyond what hashed items can produce",
                            format!("{} lg_k {} after {} items: {} exceptions (cur_min {}), {} bytes", what, lg_k, i, im.aux.len(), im.cur_min, img.len()),
                        );
                    }
                    ctx.cover(&format!("hll_mode_{}", im.mode));
                    ctx.cover_max("hll_max_aux_entries_over_k", im.aux.len() as f64 / k as f64);
                    ctx.cover_max("hll_max_aux_entries_over_bound", im.aux.len() as f64 / (16 + k / 256) as f64);
                }
            }
        }
    }
}

/// Prefix lengths at which sizes are measured: every prefix up to `dense`, then 2^j and 3 * 2^(j-1) (bounds that are
/// tight one item past a threshold are not visible at powers of two alone).
fn measure_here(i: u64, n: u64, dense: u64) -> bool {
    i <= dense || i == n || i.is_power_of_two() || (i % 3 == 0 && (i / 3).is_power_of_two())
}

fn hll_stream(ctx: &mut Ctx, rng: &mut Rng, lg_k: u8, t: HllType, n: u64, kind: u64) {
    let mut s = HllSketch::new(lg_k, t);
    let salt = rng.next_u64();
    // every prefix while the sketch is small (list, set and the first array states), sparser afterwards
    let dense = (3u64 << lg_k.saturating_sub(3)).clamp(64, 1500);
    // copies that were written and read back at the load limits of the coupon set (3 * 2^j items) and then keep
    // receiving the stream: a restored sketch is bounded like any other
    let mut restored: Vec<(u64, HllSketch)> = vec![];
    for i in 0..=n {
        if i >= 3 && i % 3 == 0 && (i / 3).is_power_of_two() && i <= (3u64 << lg_k.saturating_sub(5)).max(24) {
            if let Ok(d) = HllSketch::deserialize(&s.serialize()) {
                if restored.len() == 4 {
                    restored.remove(0);
                }
                restored.push((i, d));
                ctx.cover("hll_restored_copy_continued");
            }
        }
        if measure_here(i, n, dense) {
            hll_image_size(ctx, &s.serialize(), lg_k, i, "sketch");
            for (at, d) in &restored {
                hll_image_size(ctx, &d.serialize(), lg_k, i, &format!("sketch restored from its image at {} items", at));
            }
            // the same stream seen through unions: into the same lg_k and into a smaller lg_max_k (whose result must
            // not be larger than lg_max_k allows); the result in every type obeys the same size rule
            if i <= 40 || i == n || i.is_power_of_two() {
                for (variant, lg_max) in [(0, lg_k), (1, lg_k.saturating_sub(2).max(4)), (2, lg_k.saturating_sub(2).max(4))] {
                    let mut u = HllUnion::new(lg_max);
                    if variant == 2 {
                        // the union already holds a few coupons of its own (list mode) when the sketch arrives
                        for x in 0..3u64 {
                            u.update_value((salt, x, 7u8));
                        }
                    }
                    u.update(&s);
                    for t2 in [HllType::Hll4, HllType::Hll6, HllType::Hll8] {
                        hll_image_size(ctx, &u.to_sketch(t2).serialize(), lg_max, i, "union result");
                    }
                }
                ctx.cover("hll_union_results_measured");
            }
        }
        if i < n {
            s.update(stream_item(kind, i, salt));
            for (_, d) in restored.iter_mut() {
                d.update(stream_item(kind, i, salt));
            }
        }
    }
    // a union that has merged nothing yet hands out an empty sketch of *its* configuration
    for t2 in [HllType::Hll4, HllType::Hll6, HllType::Hll8] {
        let r = HllUnion::new(lg_k).to_sketch(t2);
        if r.lg_config_k() != lg_k {
            ctx.violation("HLL image size is not what mode and lg_k dictate", format!("empty union of lg_max_k {} hands out a sketch of lg_k {}", lg_k, r.lg_config_k()));
        }
    }
}

fn theta_stream(ctx: &mut Ctx, rng: &mut Rng, lg_k: u8, rf: ResizeFactor, p: f32, n: u64, kind: u64) {
    let mut s = ThetaSketch::builder().lg_k(lg_k).resize_factor(rf).sampling_probability(p).build();
    let salt = rng.next_u64();
    let k = 1usize << lg_k;
    let mut worst = 0usize;
    // a second sketch sees the same stream and is trimmed at every measurement point
    let mut t = ThetaSketch::builder().lg_k(lg_k).resize_factor(rf).sampling_probability(p).build();
    for i in 0..=n {
        let r = s.num_retained();
        worst = worst.max(r);
        if r > (15 * 2 * k) / 16 {
            ctx.violation("theta retains more than 15/16 of 2k entries", format!("lg_k {} after {} items: {} retained", lg_k, i, r));
            break;
        }
        if measure_here(i, n, 40) {
            ctx.evals(1);
            let c = s.compact(true);
            let img = c.serialize();
            let pre = if c.is_estimation_mode() { 3 } else if c.is_empty() || c.num_retained() == 1 { 1 } else { 2 };
            let want = 8 * pre + 8 * c.num_retained();
            if img.len() != want {
                ctx.violation("compact theta image size != 8*preamble_longs + 8*retained", format!("lg_k {} after {} items: {} bytes, expected {}", lg_k, i, img.len(), want));
            }
            let v4 = c.serialize_compressed();
            if v4.len() > img.len() {
                ctx.violation("compressed theta image larger than the uncompressed one", format!("lg_k {} after {} items: {} > {}", lg_k, i, v4.len(), img.len()));
            }
            // trim() leaves at most k, in exact mode as in estimation mode
            let before = t.num_retained();
            t.trim();
            if t.num_retained() > k {
                ctx.violation("theta retains more than k entries after trim()", format!("lg_k {} after {} items: {} retained before trim(), {} after", lg_k, i, before, t.num_retained()));
                break;
            }
            ctx.cover(if before > k { "theta_trim_effective" } else { "theta_trim_noop" });
        }
        if i < n {
            s.update(stream_item(kind, i, salt));
            t.update(stream_item(kind, i, salt));
        }
    }
    ctx.cover_max("theta_max_retained_over_2k", worst as f64 / (2 * k) as f64);
}

fn fi_stream(ctx: &mut Ctx, rng: &mut Rng, size: usize, n: u64, kind: u64) {
    let mut a: FrequentItemsSketch<u64> = FrequentItemsSketch::new(size);
    let mut b: FrequentItemsSketch<String> = FrequentItemsSketch::new(size);
    let salt = rng.next_u64();
    let mut next = 1u64;
    for i in 0..=n {
        // the bound the configuration implies: 0.75 * max(size, 8) counters (not whatever the sketch reports)
        let cap = size.max(8) * 3 / 4;
        if a.maximum_map_capacity() != cap || b.maximum_map_capacity() != cap {
            ctx.violation("frequent items maximum_map_capacity is not 0.75 * configured size", format!("size {}: {} / {}", size, a.maximum_map_capacity(), cap));
            break;
        }
        if a.num_active_items() > a.maximum_map_capacity() || b.num_active_items() > b.maximum_map_capacity() {
            ctx.violation("frequent items tracks more than maximum_map_capacity items", format!("size {} after {} items: {} / {}", size, i, a.num_active_items(), a.maximum_map_capacity()));
            break;
        }
        if i == next || i == n {
            next *= 2;
            ctx.evals(1);
            let img = a.serialize();
            let want = if a.total_weight() == 0 { 8 } else { 32 + 16 * a.num_active_items() };
            if img.len() != want {
                ctx.violation("frequent items image size != 32 + active * (8 + item size)", format!("size {} after {} items: {} bytes, expected {}", size, i, img.len(), want));
            }
            let bi = b.serialize();
            if bi.len() > 32 + b.maximum_map_capacity() * (8 + 4 + 24) {
                ctx.violation("frequent items (String) image larger than its capacity allows", format!("size {}: {} bytes", size, bi.len()));
            }
        }
        if i < n {
            let x = stream_item(kind, i, salt);
            a.update(x);
            if i < 200_000 {
                b.update(format!("{:x}", x & 0xffff_ffff));
            }
        }
    }
    ctx.cover_max("fi_max_active_over_capacity", a.num_active_items() as f64 / a.maximum_map_capacity() as f64);
    // merging: a receiver (fresh or used) keeps its own bound whatever the configuration of what it receives
    for fresh in [true, false] {
        let rsize = 1usize << rng.range(3, 7);
        let cap = rsize * 3 / 4;
        let mut r: FrequentItemsSketch<u64> = FrequentItemsSketch::new(rsize);
        if !fresh {
            r.update(salt);
        }
        r.merge(&a);
        ctx.evals(1);
        if r.maximum_map_capacity() != cap || r.num_active_items() > cap || r.serialize().len() > 32 + 16 * cap {
            ctx.violation(
                "frequent items sketch exceeds its own capacity after a merge",
                format!("receiver size {} ({}) merged a size {} sketch with {} items: capacity {} active {} image {} bytes", rsize, if fresh { "fresh" } else { "used" }, size, a.num_active_items(), r.maximum_map_capacity(), r.num_active_items(), r.serialize().len()),
            );
        }
        ctx.cover("fi_merges_measured");
    }
}

fn fixed_size_streams(ctx: &mut Ctx, rng: &mut Rng, n: u64, kind: u64) {
    // Bloom and Count-Min: size fixed at construction
    let bits = rng.range(1, 20_000);
    let h = rng.range(1, 12) as u16;
    let mut f = BloomFilterBuilder::with_size(bits, h).build();
    let words = bits.div_ceil(64) as usize;
    let nh = rng.range(1, 6) as u8;
    let nb = rng.range(3, 300) as u32;
    let mut c: CountMinSketch<u64> = CountMinSketch::new(nh, nb);
    let mut d = TDigestMut::new(*rng.pick(&[10u16, 50, 200]));
    let salt = rng.next_u64();
    let mut next = 1u64;
    for i in 0..=n {
        if i == next || i == n {
            next *= 2;
            ctx.evals(1);
            let fl = f.serialize().len();
            let want_f = if f.is_empty() { 24 } else { 32 + 8 * words };
            if fl != want_f || f.capacity() != words * 64 {
                ctx.violation("Bloom image size is not fixed by the configuration", format!("bits {} after {} items: {} bytes, expected {}", bits, i, fl, want_f));
            }
            let cl = c.serialize().len();
            let want_c = if c.is_empty() { 16 } else { 24 + 8 * nh as usize * nb as usize };
            if cl != want_c {
                ctx.violation("Count-Min image size is not fixed by the configuration", format!("{}x{} after {} items: {} bytes, expected {}", nh, nb, i, cl, want_c));
            }
            let dl = d.serialize().len();
            let kk = d.k() as usize;
            if dl > 32 + 16 * (2 * kk + 30) {
                ctx.violation("t-digest image larger than 32 + 16 * (2k + 30)", format!("k {} after {} items: {} bytes", kk, i, dl));
            }
        }
        if i < n {
            let x = stream_item(kind, i, salt);
            f.insert(x);
            c.update(x);
            d.update((x % 100_000) as f64);
        }
    }
}

/// CPC: the documented claim behind max_serialized_bytes: per trial the maximum image size over measurements
/// spaced across C/K in [3, 8] exceeds the table value in at most 0.1% of the trials.
fn cpc_cell(ctx: &mut Ctx, case: &Json) {
    let lg_k = case.u64("lg_k").unwrap_or(4) as u8;
    let trials = case.u64("trials").unwrap_or(200);
    let mut rng = Rng::new(case.u64("seed").unwrap_or(0));
    let k = 1u64 << lg_k;
    let bound = CpcSketch::max_serialized_bytes(lg_k);
    // a union that has merged nothing yet hands out an empty sketch of *its* lg_k (whatever is streamed into that
    // sketch later is bounded by the union's configuration)
    {
        let r = datasketches::cpc::CpcUnion::new(lg_k).to_sketch();
        ctx.evals(1);
        if r.lg_k() != lg_k {
            ctx.violation(
                "a CPC image exceeds max_serialized_bytes by more than 25%",
                format!("an empty union of lg_k {} hands out a sketch of lg_k {}: its images are bounded by {} bytes, not by {}", lg_k, r.lg_k(), CpcSketch::max_serialized_bytes(r.lg_k()), bound),
            );
        }
    }
    let mut exceed = 0u64;
    let mut worst_ratio = 0.0f64;
    let mut worst_anywhere = 0.0f64;
    for _ in 0..trials {
        let order = cm::natural_order(&mut rng, lg_k, 8 * k);
        let mut s = CpcSketch::new(lg_k);
        let mut max_len = 0usize;
        // 80 measurement points equally spaced over C/K in [3, 8]
        let mut next_point = 0u64;
        for (i, &rc) in order.iter().enumerate() {
            s.verif_row_col_update(rc);
            let c = (i + 1) as u64;
            if c >= 3 * k {
                let point = ((c - 3 * k) * 80) / (5 * k);
                if point >= next_point {
                    next_point = point + 1;
                    max_len = max_len.max(s.serialize().len());
                }
            } else if c.is_power_of_two() {
                // outside the characterised range the size is still far below the bound
                let l = s.serialize().len();
                worst_anywhere = worst_anywhere.max(l as f64 / bound as f64);
            }
        }
        ctx.evals(1);
        if max_len > bound {
            exceed += 1;
        }
        worst_ratio = worst_ratio.max(max_len as f64 / bound as f64);
    }
    let p0 = 0.001;
    let frac = exceed as f64 / trials as f64;
    let margin = 6.0 * (p0 * (1.0 - p0) / trials as f64).sqrt() + 1.0 / trials as f64;
    if frac > p0 + margin {
        ctx.violation(
            "CPC images exceed max_serialized_bytes more often than the documented 0.1%",
            format!("lg_k {}: {} of {} trials ({}), bound {} bytes, worst ratio {}", lg_k, exceed, trials, frac, bound, worst_ratio),
        );
    }
    if worst_ratio > 1.25 || worst_anywhere > 1.25 {
        ctx.violation(
            "a CPC image exceeds max_serialized_bytes by more than 25%",
            format!("lg_k {}: worst ratio {} (in [3,8]) / {} (elsewhere)", lg_k, worst_ratio, worst_anywhere),
        );
    }
    ctx.note(
        "list:cpc_size_cells",
        Json::Arr(vec![Json::obj().set("lg_k", lg_k).set("trials", trials).set("exceed", exceed).set("worst_ratio", worst_ratio).set("bound_bytes", bound)]),
    );
    ctx.cover(&format!("cpc_cell_lg_k_{:02}", lg_k));
    ctx.cover_n("cpc_trials", trials);
    ctx.cover_max("cpc_worst_size_over_max_serialized_bytes", worst_ratio);
    let mut fp = Fp::new();
    fp.u64(lg_k as u64);
    fp.u64(exceed);
    fp.f64(worst_ratio);
    ctx.end_case(fp.get(), true);
}

fn stream_case(ctx: &mut Ctx, case: &Json) {
    let mut rng = Rng::new(case.u64("seed").unwrap_or(0));
    let n = case.u64("n").unwrap_or(1 << 16);
    let kind = case.u64("kind").unwrap_or(0);
    match case.str("family") {
        Some("hll") => {
            let lg_k = case.u64("lg_k").unwrap_or(8) as u8;
            for t in [HllType::Hll4, HllType::Hll6, HllType::Hll8] {
                hll_stream(ctx, &mut rng, lg_k, t, n, kind);
            }
        }
        Some("theta") => {
            let lg_k = case.u64("lg_k").unwrap_or(8) as u8;
            let rf = [ResizeFactor::X1, ResizeFactor::X2, ResizeFactor::X4, ResizeFactor::X8][(case.u64("rf").unwrap_or(3) % 4) as usize];
            theta_stream(ctx, &mut rng, lg_k, rf, case.f64("p").unwrap_or(1.0) as f32, n, kind);
        }
        Some("frequent") => fi_stream(ctx, &mut rng, 1usize << case.u64("lg_size").unwrap_or(5), n, kind),
        Some("fixed") => fixed_size_streams(ctx, &mut rng, n, kind),
        other => ctx.inconclusive(format!("C18: unknown family {:?}", other)),
    }
    ctx.cover(&format!("stream_{}", case.str("family").unwrap_or("?")));
    ctx.cover(&format!("stream_kind_{}", kind));
    if n >= 1 << 20 {
        ctx.cover("stream_of_2^20_or_more_items");
    }
    ctx.cover_n("power_of_two_prefixes_measured", 64 - n.leading_zeros() as u64);
    let mut fp = Fp::new();
    fp.u64(case.u64("seed").unwrap_or(0));
    fp.u64(n);
    ctx.end_case(fp.get(), n > 0);
}

pub fn run_case(ctx: &mut Ctx, case: &Json) {
    ctx.begin_case(case.clone());
    let r = rt::guard(|| match case.str("lane") {
        Some("stream") => stream_case(ctx, case),
        Some("cpc") => cpc_cell(ctx, case),
        other => ctx.inconclusive(format!("C18: unknown lane {:?}", other)),
    });
    if let Err(p) = r {
        ctx.panic_violation("size measurement", &p);
    }
}

pub fn run(ctx: &mut Ctx) {
    ctx.note(
        "rule",
        Json::Str(
            "stream lane: one case = one stream (distinct / heavily repeated / scattered / tripled items) of up to 2^20 \
             (thorough 2^22) items into one configuration of HLL (all three types, image size checked against the mode \
             the spec-decoded image declares), theta (retained entries and compact image sizes, trim), Frequent Items \
             (active items vs capacity, image size), Bloom / Count-Min / t-digest (fixed sizes), measured after every \
             power-of-two prefix; cpc lane: per lg_k, trials that stream a natural coupon order to C = 8K and take the \
             maximum image size over 80 points in C/K in [3,8], compared with max_serialized_bytes (<= 0.1% of trials \
             + binomial margin, never by more than 25%). distinct = fingerprint of (seed, n) or of the cell's counts; \
             non-trivial = non-empty stream"
                .into(),
        ),
    );
    let mut rng = ctx.rng("c18");
    let n_max = ctx.tier_pick(1u64 << 20, 1 << 22);
    let reps = ctx.tier_pick(4u64, 16);
    for i in 0..reps {
        let n = if i == 0 { n_max } else { 1u64 << rng.range(8, 20) };
        let kind = rng.below(4);
        let cases = [
            Json::obj().set("lane", "stream").set("family", "hll").set("lg_k", rng.range(4, 14)).set("n", n).set("kind", kind),
            Json::obj().set("lane", "stream").set("family", "theta").set("lg_k", rng.range(5, 12)).set("rf", rng.below(4)).set("p", *rng.pick(&[1.0f64, 1.0, 0.3, 0.01])).set("n", n).set("kind", kind),
            Json::obj().set("lane", "stream").set("family", "frequent").set("lg_size", if rng.chance(0.25) { rng.range(0, 2) } else { rng.range(3, 11) }).set("n", n.min(1 << 20)).set("kind", kind),
            Json::obj().set("lane", "stream").set("family", "fixed").set("n", n.min(1 << 20)).set("kind", kind),
        ];
        for (j, c) in cases.into_iter().enumerate() {
            let c = c.set("seed", ctx.case_seed("stream", i * 10 + j as u64));
            run_case(ctx, &c);
            if i == 0 && j < 2 {
                ctx.sample(c);
            }
        }
    }
    // CPC cells: lg_k 4..=12, one lg_k per shard (shards 0..8), the rest of the shards add trials for small lg_k
    let lg_k = 4 + (ctx.shard % 9) as u64;
    let cost = 1u64 << lg_k; // work per trial ~ 8K coupons
    let budget = ctx.tier_pick(40_000_000u64, 600_000_000);
    let trials = (budget / (cost * 10)).clamp(60, 60000);
    let case = Json::obj().set("lane", "cpc").set("lg_k", lg_k).set("trials", trials).set("seed", ctx.case_seed("cpc", lg_k));
    run_case(ctx, &case);
}

pub fn replay(ctx: &mut Ctx, case: &Json) {
    run_case(ctx, case);
}
