//! C11 (serialize -> deserialize is lossless) and C12 (emitted bytes follow the cross-language layout).
//!
//! Both walk the same generated states, family by family. With `ctx.property == "C11"` the round-trip
//! assertions are made, with "C12" the image is decoded by the independent spec decoder and compared
//! with the reference model of the stream that built the sketch.

use std::collections::{BTreeMap, BTreeSet, HashMap};

use datasketches::bloom::{BloomFilter, BloomFilterBuilder};
use datasketches::common::NumStdDev;
use datasketches::countmin::CountMinSketch;
use datasketches::cpc::{CpcSketch, CpcUnion, CpcWrapper};
use datasketches::frequencies::{ErrorType, FrequentItemsSketch};
use datasketches::hll::{HllSketch, HllType, HllUnion};
use datasketches::tdigest::TDigestMut;
use datasketches::theta::{CompactThetaSketch, ThetaSketch};

use super::c02::{bounds_of, expand_phase, gen_phases, tname, TYPES};
use super::c04::RFS;
use super::c07::Item as FiItem;
use super::c08::{Cm, CmModel};
use super::td_common::{gen_values, SHAPES};
use crate::model::cpc as cm;
use crate::model::hll::{self as hm, HllModel};
use crate::refhash;
use crate::rt::{self, json::hex, rel_close, Ctx, Fp, Json, Rng};
use crate::spec;

const SDS: [NumStdDev; 3] = [NumStdDev::One, NumStdDev::Two, NumStdDev::Three];

fn is11(ctx: &Ctx) -> bool {
    ctx.property == "C11"
}

// ------------------------------------------------------------------------------------------------
// HLL

/// a sketch in a random mode together with its model
pub fn gen_hll(rng: &mut Rng, max_lg: u8) -> (HllSketch, HllModel, String) {
    let lg_k = rng.range(4, max_lg as u64) as u8;
    let t = *rng.pick(&TYPES);
    let k = 1usize << lg_k;
    let mut model = HllModel::new(lg_k);
    let mut sk = HllSketch::new(lg_k, t);
    let kind = rng.below(7);
    let budget = match kind {
        0 => 0,
        1 => rng.usize(1, 7),
        2 => rng.usize(8, (k / 8).max(9)),
        3 => rng.usize(k / 4, k),
        _ => rng.usize(k, 12 * k),
    };
    let mut history = vec![];
    if kind <= 3 {
        for _ in 0..budget {
            let c = hm::make_coupon(rng.next_u32() & hm::KEY_MASK_26, (rng.geometric(62) + 1) as u8);
            model.offer(c);
            sk.verif_update_with_coupon(c);
        }
    } else {
        for ph in gen_phases(rng, lg_k, budget) {
            for c in expand_phase(rng, &ph, lg_k, &history) {
                model.offer(c);
                sk.verif_update_with_coupon(c);
                if history.len() < 512 {
                    history.push(c);
                }
            }
        }
    }
    let desc = format!("lg_k={} {} kind={} coupons={}", lg_k, tname(t), kind, model.coupons.len());
    (sk, model, desc)
}

fn abstract_hll(s: &HllSketch) -> (u8, u8, u8, Vec<u32>, Vec<u8>, u8, u32, Vec<(u32, u8)>, [u64; 3], bool) {
    let st = s.verif_state();
    let mut coupons: Vec<u32> = st.coupon_table.iter().copied().filter(|&c| c != 0).collect();
    coupons.sort_unstable();
    let mut aux = st.aux.clone();
    aux.sort_unstable();
    (
        st.lg_k,
        st.mode,
        st.target_bits,
        coupons,
        st.registers,
        st.cur_min,
        st.num_at_cur_min,
        aux,
        [st.hip_accum.to_bits(), st.kxq0.to_bits(), st.kxq1.to_bits()],
        st.out_of_order,
    )
}

fn hll_case(ctx: &mut Ctx, case: &Json) {
    let mut rng = Rng::new(case.u64("seed").unwrap_or(0));
    let (mut sk, model, mut desc) = gen_hll(&mut rng, case.u64("max_lg").unwrap_or(12) as u8);
    let mut is_union_result = false;
    if rng.chance(0.25) && !model.is_empty() && !case.bool("no_union").unwrap_or(false) {
        // an out-of-order sketch: the result of a union with itself split in two
        let t = sk.target_type();
        let all: Vec<u32> = model.coupons.iter().copied().collect();
        let (a, b) = all.split_at(all.len() / 2);
        let mut u = HllUnion::new(model.lg_k);
        let mut sa = HllSketch::new(model.lg_k, *rng.pick(&TYPES));
        for &c in a {
            sa.verif_update_with_coupon(c);
        }
        let mut sb = HllSketch::new(model.lg_k, *rng.pick(&TYPES));
        for &c in b {
            sb.verif_update_with_coupon(c);
        }
        u.update(&sa);
        u.update(&sb);
        sk = u.to_sketch(t);
        is_union_result = true;
        desc.push_str(" via-union");
    }
    let st = sk.verif_state();
    let bytes = sk.serialize();
    let what = format!("HLL {} mode={} ooo={} image={}B", desc, st.mode, st.out_of_order, bytes.len());
    ctx.cover(&format!("hll_mode{}_{}", st.mode, tname(sk.target_type())));
    if st.mode == 2 && !st.aux.is_empty() {
        ctx.cover("hll4_with_aux");
    }
    if st.cur_min > 0 {
        ctx.cover("hll4_cur_min_gt_0");
    }
    if st.out_of_order {
        ctx.cover("hll_out_of_order");
    }
    ctx.evals(1);
    if is11(ctx) {
        match HllSketch::deserialize(&bytes) {
            Err(e) => ctx.violation("HLL: own image does not deserialize", format!("{}: {}", what, e)),
            Ok(mut d) => {
                let same_acc = d.lg_config_k() == sk.lg_config_k()
                    && d.target_type() == sk.target_type()
                    && d.is_empty() == sk.is_empty()
                    && bounds_of(&d).iter().zip(bounds_of(&sk).iter()).all(|(a, b)| rel_close(*a, *b, 1e-12));
                if !same_acc {
                    ctx.violation("HLL: accessors differ after round trip", format!("{}: {:?} vs {:?}", what, bounds_of(&d), bounds_of(&sk)));
                }
                if abstract_hll(&d) != abstract_hll(&sk) || d != sk {
                    ctx.violation("HLL: state differs after round trip", what.clone());
                }
                let b2 = d.serialize();
                // the exception (aux) pairs are written in hash-table order, which is not canonical: with
                // exceptions present the two images are compared as decoded states, otherwise byte by byte
                let same_image = if st.aux.is_empty() {
                    b2 == bytes
                } else {
                    match (spec::hll::decode(&b2), spec::hll::decode(&bytes)) {
                        (Ok((a, _)), Ok((b, _))) => a == b,
                        _ => b2 == bytes,
                    }
                };
                if !same_image {
                    ctx.violation("HLL: re-serialized bytes differ", format!("{}: {} vs {}", what, hex(&bytes[..bytes.len().min(48)]), hex(&b2[..b2.len().min(48)])));
                }
                // HIP is legitimately order dependent: a sketch that was still sparse when it was serialized
                // replays its coupons in table order when it is promoted later, and the table order of a
                // deserialized sketch differs. So after the round trip the HIP value is only compared while no
                // promotion from sparse mode has happened since.
                let strip = |mut a: (u8, u8, u8, Vec<u32>, Vec<u8>, u8, u32, Vec<(u32, u8)>, [u64; 3], bool), was_array: bool| {
                    if !was_array {
                        a.8[0] = 0;
                    }
                    a
                };
                let was_array = st.mode == 2;
                // same behaviour under further updates and merges
                let mut s2 = sk.clone();
                for _ in 0..rng.usize(1, 64) {
                    let c = hm::make_coupon(rng.next_u32() & hm::KEY_MASK_26, (rng.geometric(62) + 1) as u8);
                    s2.verif_update_with_coupon(c);
                    d.verif_update_with_coupon(c);
                    if strip(abstract_hll(&d), was_array) != strip(abstract_hll(&s2), was_array) {
                        ctx.violation("HLL: original and round-tripped sketch diverge under further updates", format!("{} after coupon {:x}", what, c));
                        break;
                    }
                }
                let (other, _, _) = gen_hll(&mut rng, model.lg_k.max(5));
                let mut u1 = HllUnion::new(model.lg_k);
                let mut u2 = HllUnion::new(model.lg_k);
                u1.update(&s2);
                u2.update(&d);
                u1.update(&other);
                u2.update(&other);
                // (a union result's HIP is order dependent or unused: compare everything else)
                if strip(abstract_hll(&u1.to_sketch(HllType::Hll8)), false) != strip(abstract_hll(&u2.to_sketch(HllType::Hll8)), false) {
                    ctx.violation("HLL: original and round-tripped sketch diverge under merge", what.clone());
                }
            }
        }
    } else {
        match spec::hll::decode(&bytes) {
            Err(e) => ctx.violation("HLL: image does not follow the published layout", format!("{}: {} (image {})", what, e, hex(&bytes[..bytes.len().min(48)]))),
            Ok((im, _)) => {
                let mut problems = vec![];
                if im.lg_k != model.lg_k {
                    problems.push(format!("lg_k {} want {}", im.lg_k, model.lg_k));
                }
                if im.target_bits != st.target_bits {
                    problems.push(format!("target {} want {}", im.target_bits, st.target_bits));
                }
                if im.mode != st.mode {
                    problems.push(format!("mode {} but the sketch is in mode {}", im.mode, st.mode));
                }
                if im.mode < 2 {
                    let want: Vec<u32> = model.coupons.iter().copied().collect();
                    if im.coupons != want {
                        problems.push(format!("coupons: {} decoded, model {}", im.coupons.len(), want.len()));
                    }
                } else {
                    if im.regs != model.regs {
                        let n = im.regs.iter().zip(model.regs.iter()).filter(|(a, b)| a != b).count();
                        problems.push(format!("{} registers differ from the model", n));
                    }
                    if let Err(e) = spec::hll::check_cached(&im) {
                        problems.push(e);
                    }
                    if im.ooo != st.out_of_order {
                        problems.push(format!("OUT_OF_ORDER flag {} but estimator is {}", im.ooo, st.out_of_order));
                    }
                    if !st.out_of_order && !rel_close(im.hip, sk.estimate(), 1e-12) {
                        problems.push(format!("HIP field {} but the in-order estimate is {}", im.hip, sk.estimate()));
                    }
                    if !is_union_result && st.out_of_order {
                        problems.push("a streamed sketch is flagged out of order".into());
                    }
                }
                if !problems.is_empty() {
                    ctx.violation("HLL: spec-decoded image != model state", format!("{}: {}", what, problems.join("; ")));
                }
            }
        }
    }
    let mut fp = Fp::new();
    fp.bytes(&bytes);
    ctx.end_case(fp.get(), !model.is_empty());
}

// ------------------------------------------------------------------------------------------------
// Theta

fn theta_bounds(c: &CompactThetaSketch) -> [f64; 7] {
    [
        c.estimate(),
        c.lower_bound(SDS[0]),
        c.lower_bound(SDS[1]),
        c.lower_bound(SDS[2]),
        c.upper_bound(SDS[0]),
        c.upper_bound(SDS[1]),
        c.upper_bound(SDS[2]),
    ]
}

fn theta_check_image(ctx: &mut Ctx, c: &CompactThetaSketch, bytes: &[u8], seed: u64, model_entries: &BTreeSet<u64>, model_theta: u64, what: &str, form: &str) {
    ctx.evals(1);
    if is11(ctx) {
        match CompactThetaSketch::deserialize_with_seed(bytes, seed) {
            Err(e) => ctx.violation("theta: own image does not deserialize", format!("{} [{}]: {}", what, form, e)),
            Ok(d) => {
                let e1: Vec<u64> = c.iter().collect();
                let e2: Vec<u64> = d.iter().collect();
                let mut s1 = e1.clone();
                let mut s2 = e2.clone();
                s1.sort_unstable();
                s2.sort_unstable();
                let mut problems = vec![];
                if s1 != s2 {
                    problems.push(format!("entries differ ({} vs {})", e1.len(), e2.len()));
                }
                if c.is_ordered() && d.is_ordered() && e1 != e2 {
                    problems.push("entry order differs".into());
                }
                if d.theta64() != c.theta64() {
                    problems.push(format!("theta {} vs {}", d.theta64(), c.theta64()));
                }
                if d.is_empty() != c.is_empty() {
                    problems.push(format!("is_empty {} vs {}", d.is_empty(), c.is_empty()));
                }
                if form == "v3" && d.is_ordered() != c.is_ordered() {
                    problems.push(format!("is_ordered {} vs {}", d.is_ordered(), c.is_ordered()));
                }
                if d.seed_hash() != c.seed_hash() || d.num_retained() != c.num_retained() || d.is_estimation_mode() != c.is_estimation_mode() {
                    problems.push("seed hash / retained / mode differ".into());
                }
                if theta_bounds(&d).iter().zip(theta_bounds(c).iter()).any(|(a, b)| !rel_close(*a, *b, 1e-12)) {
                    problems.push(format!("estimate/bounds {:?} vs {:?}", theta_bounds(&d), theta_bounds(c)));
                }
                let again = if form == "v3" { d.serialize() } else { d.serialize_compressed() };
                if again != bytes {
                    problems.push("re-serialized bytes differ".into());
                }
                if !problems.is_empty() {
                    ctx.violation("theta: round trip is not lossless", format!("{} [{}]: {}", what, form, problems.join("; ")));
                }
            }
        }
    } else {
        match spec::theta::decode(bytes) {
            Err(e) => ctx.violation("theta: image does not follow the published layout", format!("{} [{}]: {} (image {})", what, form, e, hex(&bytes[..bytes.len().min(40)]))),
            Ok((im, _)) => {
                let mut problems = vec![];
                if let Err(e) = spec::theta::check_semantics(&im) {
                    problems.push(e);
                }
                let got: BTreeSet<u64> = im.entries.iter().copied().collect();
                if &got != model_entries || im.entries.len() != model_entries.len() {
                    problems.push(format!("entries: {} decoded, model {}", im.entries.len(), model_entries.len()));
                }
                let want_theta = if c.is_empty() { spec::theta::MAX_THETA } else { model_theta };
                if im.theta != want_theta {
                    problems.push(format!("theta {} want {}", im.theta, want_theta));
                }
                if im.empty != c.is_empty() {
                    problems.push(format!("EMPTY flag {} but sketch empty = {}", im.empty, c.is_empty()));
                }
                if !im.empty && im.seed_hash != refhash::seed_hash(seed) {
                    problems.push(format!("seed hash {:04x} want {:04x}", im.seed_hash, refhash::seed_hash(seed)));
                }
                if im.ordered != c.is_ordered() && form == "v3" {
                    problems.push(format!("ORDERED flag {} but sketch ordered = {}", im.ordered, c.is_ordered()));
                }
                let want_ver = if form == "v3" { 3 } else { 4 };
                if im.ser_ver != want_ver {
                    problems.push(format!("serial version {} want {}", im.ser_ver, want_ver));
                }
                if !problems.is_empty() {
                    ctx.violation("theta: spec-decoded image != model state", format!("{} [{}]: {}", what, form, problems.join("; ")));
                }
            }
        }
    }
}

fn theta_case(ctx: &mut Ctx, case: &Json) {
    let mut rng = Rng::new(case.u64("seed").unwrap_or(0));
    let lane = case.str("lane").unwrap_or("theta");
    let mut seed = *rng.pick(&[9001u64, 0, 77, u64::MAX]);
    if refhash::seed_hash(seed) == 0 {
        seed = 9001;
    }
    let (compact, entries, theta, what): (CompactThetaSketch, BTreeSet<u64>, u64, String) = if lane == "theta" {
        let lg_k = rng.range(5, 11) as u8;
        let p = *rng.pick(&[1.0f32, 1.0, 0.5, 0.05]);
        let mut sk = ThetaSketch::builder().lg_k(lg_k).resize_factor(*rng.pick(&RFS)).sampling_probability(p).seed(seed).build();
        let k = 1u64 << lg_k;
        let n = match rng.below(5) {
            0 => 0,
            1 => 1,
            2 => rng.range(2, k),
            _ => rng.range(k, 8 * k),
        };
        let salt = rng.next_u64();
        for i in 0..n {
            sk.update((salt, i));
        }
        if rng.chance(0.3) {
            sk.trim();
        }
        let ordered = rng.chance(0.6);
        let c = sk.compact(ordered);
        let e: BTreeSet<u64> = sk.iter().collect();
        (c, e, sk.theta64(), format!("theta lg_k={} p={} n={} ordered={} seed={}", lg_k, p, n, ordered, seed))
    } else {
        // synthetic entry sets: chosen delta width 1..63 and length 0..=4100, made into a sketch through a
        // spec-encoded v3 image (the only way to obtain an arbitrary CompactThetaSketch)
        let width = case.u64("width").unwrap_or(10) as u32;
        let len = case.u64("len").unwrap_or(9) as usize;
        let mut e = BTreeSet::new();
        let mut prev = 0u64;
        let max_delta = if width >= 63 { spec::theta::MAX_THETA } else { (1u64 << width) - 1 };
        // keep the sum below 2^63: scale deltas down when needed, but make at least one delta use the full width
        let budget = (spec::theta::MAX_THETA - 2) / (len as u64).max(1);
        for i in 0..len {
            let full = i == len / 2;
            let hi = max_delta.min(budget).max(1);
            let mut d = if full && max_delta <= budget { (1u64 << (width - 1)) | (rng.next_u64() & (max_delta >> 1)) } else { rng.range(1, hi) };
            if d == 0 {
                d = 1;
            }
            prev += d;
            e.insert(prev);
        }
        let estimating = rng.chance(0.6) && len > 0;
        let theta = if estimating { (prev + 1 + rng.below(1 << 20)).min(spec::theta::MAX_THETA - 1) } else { spec::theta::MAX_THETA };
        let list: Vec<u64> = e.iter().copied().collect();
        let img = spec::theta::encode(
            theta,
            &list,
            len == 0 && !estimating,
            refhash::seed_hash(seed),
            spec::theta::ThetaVariant { ser_ver: 3, unordered: false, java_p: false, single_flag: false },
        );
        match CompactThetaSketch::deserialize_with_seed(&img, seed) {
            Ok(c) => (c, e, theta, format!("synthetic theta width={} len={} estimating={} seed={}", width, len, estimating, seed)),
            Err(err) => {
                // C13's business; here it only means the state cannot be built
                ctx.inconclusive(format!("synthetic theta state could not be built: {}", err));
                return;
            }
        }
    };
    let v3 = compact.serialize();
    theta_check_image(ctx, &compact, &v3, seed, &entries, theta, &what, "v3");
    let v4 = compact.serialize_compressed();
    let form = if v4.len() > 1 && v4[1] == 4 { "v4" } else { "v3" };
    theta_check_image(ctx, &compact, &v4, seed, &entries, theta, &what, form);
    if form == "v4" {
        ctx.cover(&format!("theta_v4_entry_bits_{:02}", v4[3]));
        ctx.cover(&format!("theta_v4_len_mod8_{}", entries.len() % 8));
        ctx.cover(&format!("theta_v4_num_entries_bytes_{}", v4[4]));
    }
    ctx.cover(if compact.is_empty() { "theta_empty" } else if compact.is_estimation_mode() { "theta_estimating" } else { "theta_exact" });
    ctx.cover(if compact.is_ordered() { "theta_ordered" } else { "theta_unordered" });
    let mut fp = Fp::new();
    fp.bytes(&v3);
    ctx.end_case(fp.get(), !entries.is_empty());
}

// ------------------------------------------------------------------------------------------------
// CPC

pub fn gen_cpc(rng: &mut Rng, max_lg: u8) -> (CpcSketch, Vec<u64>, u64, String) {
    let lg_k = rng.range(4, max_lg as u64) as u8;
    let k = 1u64 << lg_k;
    let mut seed = *rng.pick(&[9001u64, 9001, 5, u64::MAX]);
    if refhash::seed_hash(seed) == 0 {
        seed = 9001;
    }
    let flavor = rng.below(5);
    let c = match flavor {
        0 => 0,
        1 => rng.range(1, ((3 * k) / 32).max(2) - 1).max(1),
        2 => rng.range((3 * k).div_ceil(32), k / 2 - 1),
        3 => rng.range(k / 2, 27 * k / 8 - 1),
        _ => {
            let mult = rng.range(4, 58);
            rng.range((27 * k).div_ceil(8), cm::max_coupons_in_envelope(lg_k).min(k * mult))
        }
    };
    let merged = rng.chance(0.25) && c > 1;
    let mut sk = CpcSketch::with_seed(lg_k, seed);
    let mut mat = vec![0u64; k as usize];
    let order: Vec<u32>;
    if merged {
        // two independent natural streams (each stays inside the envelope on its own), united
        let a = cm::natural_order(rng, lg_k, c / 2);
        let b = cm::natural_order(rng, lg_k, c - c / 2);
        let mut sa = CpcSketch::with_seed(lg_k, seed);
        let mut sb = CpcSketch::with_seed(lg_k, seed);
        for &rc in &a {
            sa.verif_row_col_update(rc);
        }
        for &rc in &b {
            sb.verif_row_col_update(rc);
        }
        let mut u = CpcUnion::with_seed(lg_k, seed);
        u.update(&sa);
        u.update(&sb);
        sk = u.to_sketch();
        let mut all = a;
        all.extend(b);
        all.sort_unstable();
        all.dedup();
        order = all;
    } else {
        order = cm::natural_order(rng, lg_k, c);
        for &rc in &order {
            sk.verif_row_col_update(rc);
        }
    }
    for &rc in &order {
        mat[(rc >> 6) as usize] |= 1u64 << (rc & 63);
    }
    let desc = format!("CPC lg_k={} C={} flavor={} offset={} merged={} seed={}", lg_k, order.len(), cm::flavor(lg_k, order.len() as u64), cm::correct_offset(lg_k, order.len() as u64), merged, seed);
    (sk, mat, seed, desc)
}

fn cpc_case(ctx: &mut Ctx, case: &Json) {
    let mut rng = Rng::new(case.u64("seed").unwrap_or(0));
    let (sk, mat, seed, what) = gen_cpc(&mut rng, case.u64("max_lg").unwrap_or(11) as u8);
    let bytes = sk.serialize();
    let st = sk.verif_state();
    let c = st.num_coupons as u64;
    ctx.cover(&format!("cpc_flavor_{}", cm::flavor(st.lg_k, c)));
    ctx.cover(&format!("cpc_offset_{:02}", cm::correct_offset(st.lg_k, c)));
    ctx.evals(1);
    if is11(ctx) {
        match CpcSketch::deserialize_with_seed(&bytes, seed) {
            Err(e) => ctx.violation("CPC: own image does not deserialize", format!("{}: {}", what, e)),
            Ok(mut d) => {
                let ds = d.verif_state();
                let mut problems = vec![];
                if d.verif_bit_matrix() != mat {
                    problems.push("bit matrix differs".to_string());
                }
                if ds.num_coupons != st.num_coupons || ds.lg_k != st.lg_k || ds.merge_flag != st.merge_flag || ds.window_offset != st.window_offset {
                    problems.push("coupons / lg_k / merge flag / offset differ".to_string());
                }
                if ds.first_interesting_column != st.first_interesting_column {
                    problems.push(format!("first_interesting_column {} vs {}", ds.first_interesting_column, st.first_interesting_column));
                }
                if !st.merge_flag && (ds.kxp.to_bits() != st.kxp.to_bits() || ds.hip_est_accum.to_bits() != st.hip_est_accum.to_bits()) {
                    problems.push(format!("kxp/hip {} {} vs {} {}", ds.kxp, ds.hip_est_accum, st.kxp, st.hip_est_accum));
                }
                if !d.validate() {
                    problems.push("validate() false".into());
                }
                let eq = |a: f64, b: f64| rel_close(a, b, 1e-12);
                if !eq(d.estimate(), sk.estimate()) || SDS.iter().any(|&s| !eq(d.lower_bound(s), sk.lower_bound(s)) || !eq(d.upper_bound(s), sk.upper_bound(s))) {
                    problems.push(format!("estimate/bounds {} vs {}", d.estimate(), sk.estimate()));
                }
                if d.serialize() != bytes {
                    problems.push("re-serialized bytes differ".into());
                }
                match CpcWrapper::new(&bytes) {
                    Ok(w) => {
                        if w.lg_k() != sk.lg_k() || w.is_empty() != sk.is_empty() || !eq(w.estimate(), sk.estimate()) || SDS.iter().any(|&s| !eq(w.lower_bound(s), sk.lower_bound(s)) || !eq(w.upper_bound(s), sk.upper_bound(s))) {
                            problems.push(format!("CpcWrapper disagrees: estimate {} vs {}", w.estimate(), sk.estimate()));
                        }
                    }
                    Err(e) => problems.push(format!("CpcWrapper rejects the image: {}", e)),
                }
                // further updates
                let mut s2 = sk.clone();
                let k = 1u32 << st.lg_k;
                for _ in 0..rng.usize(1, 200) {
                    let rc = ((rng.next_u32() % k) << 6) | rng.geometric(63).min((st.window_offset as u32 + 20).min(63));
                    if (s2.num_coupons() as u64) >= cm::max_coupons_in_envelope(st.lg_k) {
                        break;
                    }
                    s2.verif_row_col_update(rc);
                    d.verif_row_col_update(rc);
                }
                if s2.verif_bit_matrix() != d.verif_bit_matrix() || s2.num_coupons() != d.num_coupons() || !eq(s2.estimate(), d.estimate()) {
                    problems.push("original and round-tripped sketch diverge under further updates".into());
                }
                if !problems.is_empty() {
                    ctx.violation("CPC: round trip is not lossless", format!("{}: {}", what, problems.join("; ")));
                }
            }
        }
    } else {
        cpc_spec_check(ctx, &bytes, &mat, seed, &st, &what);
    }
    let mut fp = Fp::new();
    fp.bytes(&bytes);
    ctx.end_case(fp.get(), c > 0);
}

fn cpc_spec_check(ctx: &mut Ctx, bytes: &[u8], mat: &[u64], seed: u64, st: &datasketches::verif::CpcState, what: &str) {
    if !spec::cpc::AVAILABLE {
        ctx.cover("cpc_spec_codec_unavailable");
        return;
    }
    match spec::cpc::decode(bytes) {
        Err(e) => ctx.violation("CPC: image does not follow the published layout", format!("{}: {} (image {})", what, e, hex(&bytes[..bytes.len().min(40)]))),
        Ok((im, _)) => {
            let mut problems = vec![];
            if im.matrix != mat {
                let n = im.matrix.iter().zip(mat.iter()).filter(|(a, b)| a != b).count();
                problems.push(format!("{} matrix rows differ from the model", n));
            }
            let c: u64 = mat.iter().map(|w| w.count_ones() as u64).sum();
            if im.num_coupons as u64 != c {
                problems.push(format!("num_coupons {} want {}", im.num_coupons, c));
            }
            if im.lg_k != st.lg_k {
                problems.push(format!("lg_k {} want {}", im.lg_k, st.lg_k));
            }
            if im.seed_hash != refhash::seed_hash(seed) {
                problems.push(format!("seed hash {:04x} want {:04x}", im.seed_hash, refhash::seed_hash(seed)));
            }
            if c > 0 && im.has_hip == st.merge_flag {
                problems.push(format!("HIP section present = {} but merged = {}", im.has_hip, st.merge_flag));
            }
            if c > 0 && im.has_hip && (im.kxp.to_bits() != st.kxp.to_bits() || im.hip_accum.to_bits() != st.hip_est_accum.to_bits()) {
                problems.push(format!("kxp/hip fields {} {} want {} {}", im.kxp, im.hip_accum, st.kxp, st.hip_est_accum));
            }
            if c > 0 {
                let min_trailing_ones = mat.iter().map(|w| (!w).trailing_zeros()).min().unwrap_or(0);
                if im.first_interesting_column as u32 > min_trailing_ones {
                    problems.push(format!("first_interesting_column {} hides an unset bit at column {}", im.first_interesting_column, min_trailing_ones));
                }
            }
            if !problems.is_empty() {
                ctx.violation("CPC: spec-decoded image != model state", format!("{}: {}", what, problems.join("; ")));
            }
        }
    }
}

// ------------------------------------------------------------------------------------------------
// Bloom

fn bloom_case(ctx: &mut Ctx, case: &Json) {
    let mut rng = Rng::new(case.u64("seed").unwrap_or(0));
    let num_bits = match rng.below(4) {
        0 => rng.range(1, 130),
        1 => *rng.pick(&[64u64, 128, 4096, 65536]),
        _ => rng.range(1, 70_000),
    };
    let nh = rng.range(1, 16) as u16;
    let seed = *rng.pick(&[9001u64, 0, u64::MAX, 0xabcdef]);
    let mut f = BloomFilterBuilder::with_size(num_bits, nh).seed(seed).build();
    let mut model = super::c09::BloomModel::new(num_bits, nh, seed);
    let n = match rng.below(4) {
        0 => 0,
        1 => 1,
        _ => rng.range(1, num_bits.min(3000)),
    };
    let salt = rng.next_u64();
    for i in 0..n {
        let item = (salt, i);
        f.insert(item);
        model.insert(i, &rt::hashed_bytes(&item));
    }
    if rng.chance(0.15) {
        f.invert();
        for w in model.bits.iter_mut() {
            *w = !*w;
        }
    }
    let bytes = f.serialize();
    let what = format!("Bloom bits={} hashes={} seed={} inserted={} bits_used={}", num_bits, nh, seed, n, f.bits_used());
    ctx.cover(if f.is_empty() { "bloom_empty" } else { "bloom_non_empty" });
    ctx.evals(1);
    if is11(ctx) {
        match BloomFilter::deserialize(&bytes) {
            Err(e) => ctx.violation("Bloom: own image does not deserialize", format!("{}: {}", what, e)),
            Ok(mut d) => {
                let mut problems = vec![];
                if d != f {
                    problems.push("filters compare unequal".to_string());
                }
                if d.bits_used() != f.bits_used() || d.capacity() != f.capacity() || d.num_hashes() != f.num_hashes() || d.seed() != f.seed() || d.is_empty() != f.is_empty() {
                    problems.push("accessors differ".into());
                }
                for i in 0..(n + 50).min(400) {
                    if d.contains(&(salt, i)) != f.contains(&(salt, i)) {
                        problems.push(format!("contains differs for item {}", i));
                        break;
                    }
                }
                if d.serialize() != bytes {
                    problems.push("re-serialized bytes differ".into());
                }
                let mut f2 = f.clone();
                for i in 0..20u64 {
                    f2.insert((salt ^ 1, i));
                    d.insert((salt ^ 1, i));
                }
                let mut other = BloomFilterBuilder::with_size(num_bits, nh).seed(seed).build();
                other.insert(12345u64);
                f2.union(&other);
                d.union(&other);
                if f2 != d || f2.serialize() != d.serialize() {
                    problems.push("diverge under further inserts / union".into());
                }
                if !problems.is_empty() {
                    ctx.violation("Bloom: round trip is not lossless", format!("{}: {}", what, problems.join("; ")));
                }
            }
        }
    } else {
        match spec::small::decode_bloom(&bytes) {
            Err(e) => ctx.violation("Bloom: image does not follow the published layout", format!("{}: {}", what, e)),
            Ok((im, _)) => {
                let mut problems = vec![];
                let pop = model.popcount();
                if im.empty != (pop == 0) {
                    problems.push(format!("EMPTY flag {} but {} bits are set", im.empty, pop));
                }
                if !im.empty {
                    if im.words != model.bits {
                        problems.push("bit array differs from the model".into());
                    }
                    if im.num_bits_set != pop && im.num_bits_set != u64::MAX {
                        problems.push(format!("numBitsSet {} want {}", im.num_bits_set, pop));
                    }
                }
                if im.num_hashes != nh || im.seed != seed {
                    problems.push(format!("num_hashes {} seed {}", im.num_hashes, im.seed));
                }
                let want_len = if pop == 0 { 24 } else { 32 + 8 * model.bits.len() };
                if bytes.len() != want_len {
                    problems.push(format!("image length {} want {}", bytes.len(), want_len));
                }
                if bytes.len() >= 20 && u32::from_le_bytes(bytes[16..20].try_into().unwrap()) as usize != model.bits.len() {
                    problems.push("numLongs field != number of words".into());
                }
                if !problems.is_empty() {
                    ctx.violation("Bloom: spec-decoded image != model state", format!("{}: {}", what, problems.join("; ")));
                }
            }
        }
    }
    let mut fp = Fp::new();
    fp.bytes(&bytes);
    ctx.end_case(fp.get(), n > 0);
}

// ------------------------------------------------------------------------------------------------
// Count-Min (8 counter types)

fn cm_typed<T: Cm>(ctx: &mut Ctx, rng: &mut Rng) {
    let nh = rng.range(1, 8) as u8;
    let nb = rng.range(3, 300) as u32;
    let mut seed = *rng.pick(&[9001u64, 0, 3, u64::MAX]);
    if refhash::seed_hash(seed) == 0 {
        seed = 9001;
    }
    let mut sk: CountMinSketch<T> = CountMinSketch::with_seed(nh, nb, seed);
    let mut model = CmModel::new(nh, nb, seed);
    let n = match rng.below(4) {
        0 => 0,
        _ => rng.range(1, 400),
    };
    let salt = rng.next_u64();
    let domain = rng.range(1, 200);
    for _ in 0..n {
        let left = T::MAXV - model.total;
        if left <= 0 {
            break;
        }
        let i = rng.below(domain);
        let item = (salt, i);
        let w = if rng.chance(0.1) { (left / 2).max(1) } else { (1 + rng.below(7) as i128).min(left) };
        sk.update_with_weight(item, T::from_i(w));
        model.add(i, &rt::hashed_bytes(&item), w);
    }
    let bytes = sk.serialize();
    let what = format!("CountMin<{}> {}x{} seed={} total={}", T::NAME, nh, nb, seed, model.total);
    ctx.cover(&format!("cm_{}", T::NAME));
    ctx.evals(1);
    if is11(ctx) {
        match CountMinSketch::<T>::deserialize_with_seed(&bytes, seed) {
            Err(e) => ctx.violation("CountMin: own image does not deserialize", format!("{}: {}", what, e)),
            Ok(mut d) => {
                let mut problems = vec![];
                if d != sk {
                    problems.push("sketches compare unequal".to_string());
                }
                if d.total_weight() != sk.total_weight() || d.num_hashes() != nh || d.num_buckets() != nb || d.seed() != seed || d.is_empty() != sk.is_empty() {
                    problems.push("accessors differ".into());
                }
                for i in 0..domain + 5 {
                    let item = (salt, i);
                    if d.estimate(item) != sk.estimate(item) || d.upper_bound(item) != sk.upper_bound(item) || d.lower_bound(item) != sk.lower_bound(item) {
                        problems.push(format!("point queries differ for item {}", i));
                        break;
                    }
                }
                if d.serialize() != bytes {
                    problems.push("re-serialized bytes differ".into());
                }
                if T::MAXV - model.total > 10 {
                    let mut s2 = sk.clone();
                    s2.update((salt, 1u64));
                    d.update((salt, 1u64));
                    let mut other: CountMinSketch<T> = CountMinSketch::with_seed(nh, nb, seed);
                    other.update_with_weight((salt, 2u64), T::from_i(3));
                    s2.merge(&other);
                    d.merge(&other);
                    if s2 != d {
                        problems.push("diverge under further update / merge".into());
                    }
                }
                if !problems.is_empty() {
                    ctx.violation("CountMin: round trip is not lossless", format!("{}: {}", what, problems.join("; ")));
                }
            }
        }
    } else {
        match spec::small::decode_cm(&bytes) {
            Err(e) => ctx.violation("CountMin: image does not follow the published layout", format!("{}: {}", what, e)),
            Ok((im, _)) => {
                let mut problems = vec![];
                let widen = |b: [u8; 8]| -> i128 {
                    if T::UNSIGNED {
                        u64::from_le_bytes(b) as i128
                    } else {
                        i64::from_le_bytes(b) as i128
                    }
                };
                if im.empty != (model.total == 0) {
                    problems.push(format!("EMPTY flag {} but total {}", im.empty, model.total));
                }
                if !im.empty {
                    if widen(im.total) != model.total {
                        problems.push(format!("total {} want {}", widen(im.total), model.total));
                    }
                    let t: Vec<i128> = im.counts.iter().map(|b| widen(*b)).collect();
                    if t != model.table {
                        let n = t.iter().zip(model.table.iter()).filter(|(a, b)| a != b).count();
                        problems.push(format!("{} counters differ from the model", n));
                    }
                }
                if im.num_hashes != nh || im.num_buckets != nb || im.seed_hash != refhash::seed_hash(seed) {
                    problems.push(format!("hashes {} buckets {} seed hash {:04x}", im.num_hashes, im.num_buckets, im.seed_hash));
                }
                if !problems.is_empty() {
                    ctx.violation("CountMin: spec-decoded image != model state", format!("{}: {}", what, problems.join("; ")));
                }
            }
        }
    }
    let mut fp = Fp::new();
    fp.bytes(&bytes[..bytes.len().min(4096)]);
    ctx.end_case(fp.get(), model.total > 0);
}

fn cm_case(ctx: &mut Ctx, case: &Json) {
    let mut rng = Rng::new(case.u64("seed").unwrap_or(0));
    match case.u64("ty").unwrap_or(0) % 8 {
        0 => cm_typed::<i8>(ctx, &mut rng),
        1 => cm_typed::<i16>(ctx, &mut rng),
        2 => cm_typed::<i32>(ctx, &mut rng),
        3 => cm_typed::<i64>(ctx, &mut rng),
        4 => cm_typed::<u8>(ctx, &mut rng),
        5 => cm_typed::<u16>(ctx, &mut rng),
        6 => cm_typed::<u32>(ctx, &mut rng),
        _ => cm_typed::<u64>(ctx, &mut rng),
    }
}

// ------------------------------------------------------------------------------------------------
// Frequent items (i64, u64, String)

trait FiBytes: FiItem {
    fn key(&self) -> Vec<u8>;
    const STRINGS: bool;
}
impl FiBytes for i64 {
    fn key(&self) -> Vec<u8> {
        self.to_le_bytes().to_vec()
    }
    const STRINGS: bool = false;
}
impl FiBytes for u64 {
    fn key(&self) -> Vec<u8> {
        self.to_le_bytes().to_vec()
    }
    const STRINGS: bool = false;
}
impl FiBytes for String {
    fn key(&self) -> Vec<u8> {
        self.as_bytes().to_vec()
    }
    const STRINGS: bool = true;
}

fn fi_typed<T: FiBytes>(ctx: &mut Ctx, rng: &mut Rng) {
    // any power of two is a valid maximum map size (sizes below 8 are raised to 8 by the library)
    let size = 1usize << rng.range(0, 9);
    let mut sk: FrequentItemsSketch<T> = FrequentItemsSketch::new(size);
    let salt = rng.next_u64();
    let domain = rng.range(1, 600);
    let items: Vec<T> = (0..domain).map(|i| T::make(i, salt)).collect();
    let n = match rng.below(5) {
        0 => 0,
        1 => rng.range(1, 6),
        _ => rng.range(1, 3000),
    };
    let mut total = 0u64;
    let equal = rng.chance(0.2);
    for j in 0..n {
        let i = if equal { j % domain } else { rng.below(domain) };
        let w = if equal { 7 } else { 1 + rng.below(4) };
        sk.update_with_count(items[i as usize].clone(), w);
        total += w;
    }
    let bytes = sk.serialize();
    let what = format!("FrequentItems<{}> size={} n={} active={} offset={} total={}", T::NAME, size, n, sk.num_active_items(), sk.maximum_error(), total);
    ctx.cover(&format!("fi_{}", T::NAME));
    if sk.num_active_items() == 0 && total > 0 {
        ctx.cover("fi_emptied_by_purge");
    }
    if sk.maximum_error() > 0 {
        ctx.cover("fi_purged");
    }
    ctx.evals(1);
    if is11(ctx) {
        match FrequentItemsSketch::<T>::deserialize(&bytes) {
            Err(e) => ctx.violation("FrequentItems: own image does not deserialize", format!("{}: {} ({} bytes)", what, e, bytes.len())),
            Ok(mut d) => {
                let mut problems = vec![];
                if d.total_weight() != sk.total_weight() || d.maximum_error() != sk.maximum_error() || d.num_active_items() != sk.num_active_items() || d.is_empty() != sk.is_empty() {
                    problems.push(format!("total {} vs {}, maximum_error {} vs {}, active {} vs {}", d.total_weight(), sk.total_weight(), d.maximum_error(), sk.maximum_error(), d.num_active_items(), sk.num_active_items()));
                }
                if d.lg_max_map_size() != sk.lg_max_map_size() || d.maximum_map_capacity() != sk.maximum_map_capacity() {
                    problems.push("map size differs".into());
                }
                // the current table size is part of the image (preamble byte 4) and of the public state
                if d.lg_cur_map_size() != sk.lg_cur_map_size() || d.current_map_capacity() != sk.current_map_capacity() {
                    problems.push(format!("current map size differs: lg {} vs {}, capacity {} vs {}", d.lg_cur_map_size(), sk.lg_cur_map_size(), d.current_map_capacity(), sk.current_map_capacity()));
                }
                let again = d.serialize();
                if again.len() != bytes.len() || again[..again.len().min(8)] != bytes[..bytes.len().min(8)] {
                    problems.push(format!("re-serialized preamble differs: {} vs {}", hex(&again[..again.len().min(8)]), hex(&bytes[..bytes.len().min(8)])));
                }
                for it in &items {
                    if d.estimate(it) != sk.estimate(it) || d.lower_bound(it) != sk.lower_bound(it) || d.upper_bound(it) != sk.upper_bound(it) {
                        problems.push(format!("point queries differ for {:?}", it));
                        break;
                    }
                }
                for et in [ErrorType::NoFalsePositives, ErrorType::NoFalseNegatives] {
                    let a: BTreeMap<Vec<u8>, (u64, u64, u64)> = sk.frequent_items(et).iter().map(|r| (r.item().key(), (r.lower_bound(), r.estimate(), r.upper_bound()))).collect();
                    let b: BTreeMap<Vec<u8>, (u64, u64, u64)> = d.frequent_items(et).iter().map(|r| (r.item().key(), (r.lower_bound(), r.estimate(), r.upper_bound()))).collect();
                    if a != b {
                        problems.push("frequent_items differ".into());
                    }
                }
                // the re-serialized image must encode the same state (the layout is not canonical: item order follows the table)
                let again = d.serialize();
                match (spec::small::decode_fi(&bytes, T::STRINGS), spec::small::decode_fi(&again, T::STRINGS)) {
                    (Ok((a, _)), Ok((b, _))) => {
                        if fi_multiset(&a) != fi_multiset(&b) || a.stream_weight != b.stream_weight || a.offset != b.offset || a.lg_max != b.lg_max {
                            problems.push("re-serialized image encodes another state".into());
                        }
                    }
                    (a, b) => problems.push(format!("images do not decode: {:?} {:?}", a.err(), b.err())),
                }
                // same behaviour under further updates and a merge
                let mut s2 = sk.clone();
                for _ in 0..rng.usize(1, 60) {
                    let i = rng.below(domain) as usize;
                    s2.update(items[i].clone());
                    d.update(items[i].clone());
                }
                let mut other: FrequentItemsSketch<T> = FrequentItemsSketch::new(size);
                for i in 0..domain.min(20) {
                    other.update_with_count(items[i as usize].clone(), 3);
                }
                s2.merge(&other);
                d.merge(&other);
                // (a purge samples the first counters in table order, and the table order of a deserialized
                // sketch differs: the offsets may legitimately differ afterwards, the total weight may not)
                if s2.total_weight() != d.total_weight() {
                    problems.push(format!("diverge under updates+merge: total {} vs {}", s2.total_weight(), d.total_weight()));
                }
                if s2.maximum_error() == d.maximum_error() {
                    // with equal offsets the bounds of every item must agree (purge samples the table layout,
                    // which may legitimately differ; then the offsets differ and nothing is asserted)
                    for it in &items {
                        if s2.upper_bound(it) != d.upper_bound(it) && sk.maximum_error() == 0 && s2.maximum_error() == 0 {
                            problems.push(format!("diverge under updates+merge for {:?}", it));
                            break;
                        }
                    }
                }
                if !problems.is_empty() {
                    ctx.violation("FrequentItems: round trip is not lossless", format!("{}: {}", what, problems.join("; ")));
                }
            }
        }
    } else {
        match spec::small::decode_fi(&bytes, T::STRINGS) {
            Err(e) => ctx.violation("FrequentItems: image does not follow the published layout", format!("{}: {} (image {})", what, e, hex(&bytes[..bytes.len().min(40)]))),
            Ok((im, _)) => {
                let mut problems = vec![];
                if im.empty != (total == 0) {
                    problems.push(format!("EMPTY flag {} but stream weight {}", im.empty, total));
                }
                if !im.empty {
                    if im.stream_weight != total {
                        problems.push(format!("stream weight {} want {}", im.stream_weight, total));
                    }
                    if im.offset != sk.maximum_error() {
                        problems.push(format!("offset {} want {}", im.offset, sk.maximum_error()));
                    }
                    let ms = fi_multiset(&im);
                    if ms.len() != im.counts.len() {
                        problems.push("an item appears twice in the image".into());
                    }
                    let mut want: BTreeMap<Vec<u8>, u64> = BTreeMap::new();
                    for it in &items {
                        let c = sk.lower_bound(it);
                        if c > 0 {
                            want.insert(it.key(), c);
                        }
                    }
                    if ms != want {
                        problems.push(format!("(item, count) pairs: {} decoded, sketch tracks {}", ms.len(), want.len()));
                    }
                }
                if im.lg_max != sk.lg_max_map_size() || im.lg_cur != sk.lg_cur_map_size() {
                    problems.push(format!("lg sizes {} {} want {} {}", im.lg_max, im.lg_cur, sk.lg_max_map_size(), sk.lg_cur_map_size()));
                }
                if !problems.is_empty() {
                    ctx.violation("FrequentItems: spec-decoded image != sketch state", format!("{}: {}", what, problems.join("; ")));
                }
            }
        }
    }
    let mut fp = Fp::new();
    fp.u64(size as u64);
    fp.u64(total);
    fp.u64(sk.maximum_error());
    fp.u64(sk.num_active_items() as u64);
    ctx.end_case(fp.get(), total > 0);
}

fn fi_multiset(im: &spec::small::FiImage) -> BTreeMap<Vec<u8>, u64> {
    let mut m = BTreeMap::new();
    match &im.items {
        spec::small::FiItems::Longs(v) => {
            for (x, c) in v.iter().zip(im.counts.iter()) {
                m.insert(x.to_le_bytes().to_vec(), *c);
            }
        }
        spec::small::FiItems::Strings(v) => {
            for (x, c) in v.iter().zip(im.counts.iter()) {
                m.insert(x.clone(), *c);
            }
        }
    }
    m
}

fn fi_case(ctx: &mut Ctx, case: &Json) {
    let mut rng = Rng::new(case.u64("seed").unwrap_or(0));
    match case.u64("ty").unwrap_or(0) % 3 {
        0 => fi_typed::<i64>(ctx, &mut rng),
        1 => fi_typed::<u64>(ctx, &mut rng),
        _ => fi_typed::<String>(ctx, &mut rng),
    }
}

// ------------------------------------------------------------------------------------------------
// t-digest

fn td_case(ctx: &mut Ctx, case: &Json) {
    let mut rng = Rng::new(case.u64("seed").unwrap_or(0));
    let k = *rng.pick(&[10u16, 30, 100, 200, 500]);
    let shape = *rng.pick(&SHAPES[..15]);
    let n = *rng.pick(&[0usize, 1, 2, 3, 50, 1000, 20_000]);
    let mut d = TDigestMut::new(k);
    let values = gen_values(&mut rng, shape, n);
    for &v in &values {
        d.update(v);
    }
    let n_finite = values.iter().filter(|v| v.is_finite()).count() as u64;
    let bytes = d.serialize();
    let what = format!("TDigest k={} shape={} n={} image={}B", k, shape, n_finite, bytes.len());
    ctx.cover(match n_finite {
        0 => "td_empty",
        1 => "td_single",
        _ => "td_multi",
    });
    ctx.evals(1);
    if is11(ctx) {
        match TDigestMut::deserialize(&bytes, false) {
            Err(e) => ctx.violation("TDigest: own image does not deserialize", format!("{}: {}", what, e)),
            Ok(mut x) => {
                let mut problems = vec![];
                if x.k() != d.k() || x.total_weight() != d.total_weight() || x.min_value() != d.min_value() || x.max_value() != d.max_value() || x.is_empty() != d.is_empty() {
                    problems.push("k / total / min / max / emptiness differ".to_string());
                }
                for i in 0..=50 {
                    let q = i as f64 / 50.0;
                    let (a, b) = (x.quantile(q), d.quantile(q));
                    if a.map(f64::to_bits) != b.map(f64::to_bits) {
                        problems.push(format!("quantile({}) {:?} vs {:?}", q, a, b));
                        break;
                    }
                    if let Some(v) = b {
                        if x.rank(v).map(f64::to_bits) != d.rank(v).map(f64::to_bits) {
                            problems.push(format!("rank({}) differs", v));
                            break;
                        }
                    }
                }
                if x.serialize() != bytes {
                    problems.push("re-serialized bytes differ".into());
                }
                let shape2 = *rng.pick(&SHAPES[..15]);
                let more = gen_values(&mut rng, shape2, 300);
                let mut d2 = d.clone();
                for &v in &more {
                    d2.update(v);
                    x.update(v);
                }
                let mut other = TDigestMut::new(k);
                for &v in &more[..100.min(more.len())] {
                    other.update(v * 0.5);
                }
                d2.merge(&other);
                x.merge(&other);
                if d2.serialize() != x.serialize() {
                    problems.push("diverge under further updates / merge".into());
                }
                if !problems.is_empty() {
                    ctx.violation("TDigest: round trip is not lossless", format!("{}: {}", what, problems.join("; ")));
                }
            }
        }
    } else {
        match spec::tdigest::decode_native(&bytes, false) {
            Err(e) => ctx.violation("TDigest: image does not follow the published layout", format!("{}: {}", what, e)),
            Ok((im, _)) => {
                let mut problems = vec![];
                if im.k != k {
                    problems.push(format!("k {} want {}", im.k, k));
                }
                if im.total_weight() != n_finite {
                    problems.push(format!("weights sum to {} want {}", im.total_weight(), n_finite));
                }
                if n_finite > 0 {
                    let mn = values.iter().copied().filter(|v| v.is_finite()).fold(f64::INFINITY, f64::min);
                    let mx = values.iter().copied().filter(|v| v.is_finite()).fold(f64::NEG_INFINITY, f64::max);
                    if im.min != mn || im.max != mx {
                        problems.push(format!("min/max {} {} want {} {}", im.min, im.max, mn, mx));
                    }
                    if !im.centroids.windows(2).all(|w| w[0].0 <= w[1].0) || im.centroids.iter().any(|c| c.1 == 0 || c.0 < mn || c.0 > mx) {
                        problems.push("centroids not sorted / zero weight / outside [min,max]".into());
                    }
                    // the weighted mean of the centroids is the mean of the data (means are weighted averages)
                    let mean_c: f64 = im.centroids.iter().map(|c| c.0 * (c.1 as f64 / n_finite as f64)).sum();
                    let mean_d: f64 = values.iter().filter(|v| v.is_finite()).map(|v| v / n_finite as f64).sum();
                    let scale = mn.abs().max(mx.abs()).max(1e-300);
                    if ((mean_c - mean_d) / scale).abs() > 1e-6 {
                        problems.push(format!("weighted mean of centroids {} but data mean {}", mean_c, mean_d));
                    }
                }
                if !im.buffered.is_empty() {
                    problems.push("image carries buffered values although serialize() compresses first".into());
                }
                // The merge direction alternates with every compression and is part of the image (a reader
                // continues where the writer stopped). Up to 50 values nothing overflows the buffer (its capacity is at
                // least 120), so the compression done by serialize() is the first one: the flag must be set; one more
                // value and a second serialize() is the second compression: the flag must be clear. This holds for
                // the single-value form as for the general one.
                if (1..=50).contains(&n_finite) {
                    if !im.reverse_merge {
                        problems.push("merge-direction flag clear after the first compression".into());
                    }
                    let mut d2 = d.clone();
                    d2.update(values.iter().copied().find(|v| v.is_finite()).unwrap_or(0.0));
                    match spec::tdigest::decode_native(&d2.serialize(), false) {
                        Ok((im2, _)) if !im2.reverse_merge && im2.total_weight() == n_finite + 1 => {}
                        Ok((im2, _)) => problems.push(format!("after one more value and a second serialize(): flag {} weight {}", im2.reverse_merge, im2.total_weight())),
                        Err(e) => problems.push(format!("second image: {}", e)),
                    }
                }
                if !problems.is_empty() {
                    ctx.violation("TDigest: spec-decoded image != model state", format!("{}: {}", what, problems.join("; ")));
                }
            }
        }
    }
    let mut fp = Fp::new();
    fp.bytes(&bytes[..bytes.len().min(2048)]);
    ctx.end_case(fp.get(), n_finite > 1);
}

// ------------------------------------------------------------------------------------------------


// ------------------------------------------------------------------------------------------------
// explicit scenarios (witnesses of fixed findings)

pub const SCENARIOS: [&str; 4] = ["cpc_empty_round_trip_then_update", "hll4_image_with_exceptions", "fi_empty_image", "fi_purged_empty_image"];

fn scenario_case(ctx: &mut Ctx, name: &str) {
    match name {
        "cpc_empty_round_trip_then_update" => {
            for lg_k in [4u8, 11] {
                let sk = CpcSketch::new(lg_k);
                let bytes = sk.serialize();
                if is11(ctx) {
                    match CpcSketch::deserialize(&bytes) {
                        Ok(mut d) => {
                            let mut s2 = sk.clone();
                            for i in 0..50u64 {
                                s2.update(i);
                                d.update(i);
                            }
                            if !rel_close(s2.estimate(), d.estimate(), 1e-12) || !d.estimate().is_finite() {
                                ctx.violation("CPC: round trip is not lossless", format!("scenario {} lg_k={}: estimate after 50 updates {} vs {}", name, lg_k, d.estimate(), s2.estimate()));
                            }
                        }
                        Err(e) => ctx.violation("CPC: own image does not deserialize", format!("scenario {}: {}", name, e)),
                    }
                } else {
                    cpc_spec_check(ctx, &bytes, &vec![0u64; 1 << lg_k], 9001, &sk.verif_state(), name);
                }
            }
        }
        "hll4_image_with_exceptions" => {
            // deterministic search for a state with live exceptions, then the ordinary HLL case on it
            for s in 0..200u64 {
                let mut rng = Rng::new(1000 + s);
                let (sk, _, _) = gen_hll(&mut rng, 9);
                if !sk.verif_state().aux.is_empty() {
                    hll_case(ctx, &Json::obj().set("family", "hll").set("seed", 1000 + s).set("max_lg", 9u64).set("no_union", true));
                    ctx.cover("scenario_hll4_with_exceptions_found");
                    break;
                }
            }
        }
        _ => {
            let mut sk: FrequentItemsSketch<u64> = FrequentItemsSketch::new(8);
            let mut total = 0u64;
            if name == "fi_purged_empty_image" {
                for i in 0..7u64 {
                    sk.update_with_count(i, 100);
                    total += 100;
                }
            }
            let bytes = sk.serialize();
            if is11(ctx) {
                match FrequentItemsSketch::<u64>::deserialize(&bytes) {
                    Ok(d) => {
                        if d.total_weight() != total || d.maximum_error() != sk.maximum_error() || d.upper_bound(&3) != sk.upper_bound(&3) {
                            ctx.violation("FrequentItems: round trip is not lossless", format!("scenario {}: total {} offset {} vs {} {}", name, d.total_weight(), d.maximum_error(), total, sk.maximum_error()));
                        }
                    }
                    Err(e) => ctx.violation("FrequentItems: own image does not deserialize", format!("scenario {}: {} ({} bytes)", name, e, bytes.len())),
                }
            } else {
                match spec::small::decode_fi(&bytes, false) {
                    Ok((im, _)) => {
                        if im.stream_weight != total || im.offset != sk.maximum_error() || im.empty != (total == 0) {
                            ctx.violation("FrequentItems: spec-decoded image != sketch state", format!("scenario {}: weight {} offset {} empty {}", name, im.stream_weight, im.offset, im.empty));
                        }
                    }
                    Err(e) => ctx.violation("FrequentItems: image does not follow the published layout", format!("scenario {}: {} (image {})", name, e, hex(&bytes))),
                }
            }
        }
    }
    ctx.cover(&format!("scenario_{}", name));
    ctx.evals(1);
    ctx.end_case(rt::mix_str(name), true);
}

pub fn run_case(ctx: &mut Ctx, case: &Json) {
    ctx.begin_case(case.clone());
    let fam = case.str("family").unwrap_or("").to_string();
    let r = rt::guard(|| match fam.as_str() {
        _ if case.str("scenario").is_some() => scenario_case(ctx, case.str("scenario").unwrap()),
        "hll" => hll_case(ctx, case),
        "theta" => theta_case(ctx, case),
        "cpc" => cpc_case(ctx, case),
        "bloom" => bloom_case(ctx, case),
        "countmin" => cm_case(ctx, case),
        "frequent" => fi_case(ctx, case),
        "tdigest" => td_case(ctx, case),
        other => ctx.inconclusive(format!("unknown family {:?}", other)),
    });
    if let Err(p) = r {
        ctx.panic_violation(&format!("{} serialize/deserialize", fam), &p);
    }
}

pub fn run(ctx: &mut Ctx) {
    let rule = if is11(ctx) {
        "one case = one generated sketch state of one family (HLL every mode/type incl. aux exceptions, cur_min > 0 and out-of-order union results; compact theta from sketches and from synthetic entry sets of every delta width 1..63 and length 0..=4100, v3 and v4 forms; CPC every flavor and many window offsets, merged or not; Bloom; Count-Min in all 8 counter types; Frequent Items i64/u64/String incl. purged-empty; t-digest), serialized, deserialized and compared accessor by accessor, state by state, byte by byte, then driven further by the same updates and merge. distinct = fingerprint of the image; non-trivial = non-empty sketch"
    } else {
        "same generated states as C11; every image is decoded by the independent spec decoder (harness/src/spec) and the decoded abstract state is compared with the reference model of the stream that built the sketch (coupons / registers / entries / matrix / bit array / counter table / (item,count) multiset / centroids), every preamble field checked against the published layout. distinct = fingerprint of the image; non-trivial = non-empty sketch"
    };
    ctx.note("rule", Json::Str(rule.into()));
    if ctx.shard == 0 {
        for name in SCENARIOS {
            run_case(ctx, &Json::obj().set("family", "scenario").set("scenario", name));
        }
    }
    let scale = ctx.tier_pick(6u64, 400);
    let fams: [(&str, u64); 7] = [("hll", 60), ("theta", 40), ("cpc", 25), ("bloom", 40), ("countmin", 48), ("frequent", 45), ("tdigest", 20)];
    for (fam, n) in fams {
        for i in 0..n * scale {
            let mut case = Json::obj().set("family", fam).set("seed", ctx.case_seed(fam, i)).set("ty", i);
            if fam == "theta" {
                case.put("lane", "theta");
            }
            run_case(ctx, &case);
            if i == 0 && ctx.samples.len() < 6 {
                ctx.sample(case);
            }
        }
    }
    // synthetic theta entry sets: every delta width 1..63 and lengths 0..=4100 (every residue mod 8, > 255 entries)
    let mut rng = ctx.rng("synthetic");
    let mut idx = 0u64;
    for width in 1..=63u64 {
        let lens: Vec<u64> = {
            let mut l: Vec<u64> = (0..=17).collect();
            l.extend([255u64, 256, 257, 511, 1000, 4093, 4094, 4095, 4096, 4097, 4098, 4099, 4100]);
            for _ in 0..(4 * scale) {
                l.push(rng.range(18, 4100));
            }
            l
        };
        for len in lens {
            idx += 1;
            if idx % ctx.nshards as u64 != ctx.shard as u64 {
                continue;
            }
            // a length needs len * 2^(width-1) < 2^63 for a full-width delta to exist; narrower otherwise
            let case = Json::obj().set("family", "theta").set("lane", "synthetic").set("width", width).set("len", len).set("seed", rt::mix(&[ctx.seed, width, len]));
            run_case(ctx, &case);
        }
    }
    // around and beyond 65535 entries, where the entry count of the compressed form needs a third byte
    for (i, len) in [65_535u64, 65_536, 65_537, 70_000, 200_000].into_iter().enumerate() {
        if (3 + i) % ctx.nshards == ctx.shard && (len <= 70_000 || !ctx.quick()) {
            let case = Json::obj().set("family", "theta").set("lane", "synthetic").set("width", 30u64 + i as u64).set("len", len).set("seed", rt::mix(&[ctx.seed, 99, len]));
            run_case(ctx, &case);
            ctx.cover("theta_more_than_65535_entries");
        }
    }
}

pub fn replay(ctx: &mut Ctx, case: &Json) {
    run_case(ctx, case);
}

#[allow(dead_code)]
fn unused(_: HashMap<u8, u8>) {}
