//! C10 — t-digest rank and quantile are monotone, in range and mutually consistent.

use datasketches::tdigest::TDigestMut;

use super::td_common::{centroids_of, gen_values, next_down, next_up, Digest, SHAPES};
use crate::rt::{self, Ctx, Fp, Json, Rng};
use crate::spec::tdigest as spec;

fn le_slack(a: f64, b: f64) -> bool {
    // a <= b up to a few ulps of the larger magnitude (a weighted average of two means may round)
    a <= b || (a - b) <= 1e-12 * a.abs().max(b.abs())
}

/// All shape-of-answer assertions for one digest state. `class` labels synthetic images.
pub fn check_shape<D: Digest>(
    ctx: &mut Ctx,
    d: &mut D,
    cent: &spec::TdImage,
    expect_total: Option<u64>,
    expect_minmax: Option<(f64, f64)>,
    class: &str,
    what: &str,
    nq: usize,
) {
    ctx.evals(1);
    let sig = |s: &str| if class.is_empty() { s.to_string() } else { format!("{} | class={}", s, class) };
    let tag = format!("{} [{} k={} centroids={} n={}]", what, d.form(), cent.k, cent.centroids.len(), d.total());
    if let Some(t) = expect_total {
        if d.total() != t {
            ctx.violation(&sig("total_weight != number of finite values offered"), format!("{}: {} want {}", tag, d.total(), t));
        }
    }
    if d.empty() {
        let all_none = d.rank(0.0).is_none() && d.quantile(0.5).is_none() && d.min().is_none() && d.max().is_none();
        if !all_none || d.total() != 0 {
            ctx.violation(&sig("empty digest answers queries"), tag.clone());
        }
        return;
    }
    let (min, max) = (d.min().unwrap(), d.max().unwrap());
    if let Some((emin, emax)) = expect_minmax {
        if min != emin || max != emax {
            ctx.violation(&sig("min/max are not the exact extremes"), format!("{}: min {} max {} want {} {}", tag, min, max, emin, emax));
        }
    }
    let n = d.total() as f64;
    // ---- quantile grid
    let mut qs: Vec<f64> = (0..=nq).map(|i| i as f64 / nq as f64).collect();
    let total = d.total();
    if total <= 3000 {
        for j in 0..=total {
            qs.push(j as f64 / n);
            qs.push(((j as f64 + 0.5) / n).min(1.0));
        }
    } else {
        for j in 0..40u64 {
            qs.push(j as f64 / n);
            qs.push(1.0 - j as f64 / n);
        }
    }
    qs.sort_by(|a, b| a.partial_cmp(b).unwrap());
    qs.dedup();
    let mut prev = f64::NEG_INFINITY;
    let mut prev_q = 0.0;
    let mut bad_mono = 0u32;
    let mut reported = [false; 4];
    for &q in &qs {
        let x = d.quantile(q).unwrap_or(f64::NAN);
        if x.is_nan() {
            if !reported[0] {
                reported[0] = true;
                ctx.violation(&sig("quantile is NaN"), format!("{}: quantile({}) = NaN", tag, q));
            }
            continue;
        }
        if !(le_slack(min, x) && le_slack(x, max)) && !reported[1] {
            reported[1] = true;
            ctx.violation(&sig("quantile outside [min, max]"), format!("{}: quantile({}) = {} min {} max {}", tag, q, x, min, max));
        }
        if !le_slack(prev, x) {
            bad_mono += 1;
            if !reported[2] {
                reported[2] = true;
                ctx.violation(&sig("quantile decreases"), format!("{}: quantile({}) = {} > quantile({}) = {}", tag, prev_q, prev, q, x));
            }
        }
        prev = x;
        prev_q = q;
    }
    let _ = bad_mono;
    ctx.evals(qs.len() as u64);
    let q0 = d.quantile(0.0).unwrap_or(f64::NAN);
    let q1 = d.quantile(1.0).unwrap_or(f64::NAN);
    if q0 != min || q1 != max {
        ctx.violation(&sig("quantile(0) != min or quantile(1) != max"), format!("{}: quantile(0) {} min {} quantile(1) {} max {}", tag, q0, min, q1, max));
    }
    // ---- rank grid: centroid means +-1ulp, midpoints, extremes, outside
    let mut vs: Vec<f64> = vec![min, max, next_down(min), next_up(max), next_up(min), next_down(max)];
    let span = (max - min).abs().max(min.abs() * 1e-3).max(1e-300);
    vs.push(min - span);
    vs.push(max + span);
    let step = (cent.centroids.len() / 400).max(1);
    for (i, c) in cent.centroids.iter().enumerate() {
        if i % step != 0 && i + 2 < cent.centroids.len() && i > 1 {
            continue;
        }
        vs.push(c.0);
        vs.push(next_up(c.0));
        vs.push(next_down(c.0));
        if i + 1 < cent.centroids.len() {
            vs.push(c.0 / 2.0 + cent.centroids[i + 1].0 / 2.0);
        }
    }
    vs.retain(|v| v.is_finite());
    vs.sort_by(|a, b| a.partial_cmp(b).unwrap());
    vs.dedup();
    let mut prev_r = f64::NEG_INFINITY;
    let mut prev_v = f64::NEG_INFINITY;
    let mut rep = [false; 4];
    for &v in &vs {
        let r = d.rank(v).unwrap_or(f64::NAN);
        if r.is_nan() || r < -1e-12 || r > 1.0 + 1e-12 {
            if !rep[0] {
                rep[0] = true;
                ctx.violation(&sig("rank outside [0, 1]"), format!("{}: rank({}) = {} (min {} max {})", tag, v, r, min, max));
            }
            continue;
        }
        if v < min && r != 0.0 && !rep[1] {
            rep[1] = true;
            ctx.violation(&sig("rank below min is not 0"), format!("{}: rank({}) = {}", tag, v, r));
        }
        if v > max && r != 1.0 && !rep[1] {
            rep[1] = true;
            ctx.violation(&sig("rank above max is not 1"), format!("{}: rank({}) = {}", tag, v, r));
        }
        if r < prev_r - 1e-12 && !rep[2] {
            rep[2] = true;
            ctx.violation(&sig("rank decreases"), format!("{}: rank({}) = {} > rank({}) = {}", tag, prev_v, prev_r, v, r));
        }
        prev_r = r;
        prev_v = v;
    }
    ctx.evals(vs.len() as u64);
    // ---- cdf / pmf against rank, including the empty split list
    let sp: Vec<f64> = {
        let mut s: Vec<f64> = vs.iter().copied().step_by((vs.len() / 12).max(1)).collect();
        s.dedup();
        s
    };
    for list in [&sp[..], &[][..], &sp[..sp.len().min(1)]] {
        let cdf = d.cdf(list);
        let pmf = d.pmf(list);
        match (cdf, pmf) {
            (Some(c), Some(p)) => {
                let mut ok = c.len() == list.len() + 1 && p.len() == list.len() + 1 && (c[c.len() - 1] - 1.0).abs() < 1e-12;
                for (i, &s) in list.iter().enumerate() {
                    let r = d.rank(s).unwrap_or(f64::NAN);
                    if !(c[i] == r || (c[i] - r).abs() < 1e-15) {
                        ok = false;
                    }
                }
                let sum: f64 = p.iter().sum();
                if (sum - 1.0).abs() > 1e-9 || p.iter().any(|x| *x < -1e-12 || x.is_nan()) {
                    ok = false;
                }
                if !ok {
                    ctx.violation(
                        &sig("cdf/pmf inconsistent with rank"),
                        format!("{}: split points {:?} cdf {:?} pmf sum {}", tag, &list[..list.len().min(4)], &c[..c.len().min(5)], sum),
                    );
                }
            }
            _ => ctx.violation(&sig("cdf/pmf return None on a non-empty digest"), format!("{}: {} split points", tag, list.len())),
        }
    }
    ctx.evals(3);
    // ---- rank(quantile(q)) stays within the digest's resolution of q
    let cents = &cent.centroids;
    let stride = (qs.len() / 120).max(1);
    let mut worst = 0.0f64;
    for &q in qs.iter().step_by(stride) {
        let x = match d.quantile(q) {
            Some(x) if !x.is_nan() => x,
            _ => continue,
        };
        // a weighted average of two equal means may come out one ulp off: evaluate at the value
        // clamped into [min, max] and treat means within 1e-12 (relative) of it as equal to it
        let mut x = x.clamp(min, max);
        {
            // snap to a centroid mean that is within rounding distance: rank() is discontinuous at a
            // heavily tied mean, and an ulp of rounding in quantile() must not be charged as rank error
            let e = 1e-12 * x.abs().max(1e-300);
            let i = cents.partition_point(|c| c.0 < x - e);
            if i < cents.len() && (cents[i].0 - x).abs() <= e {
                x = cents[i].0;
            }
        }
        let r = match d.rank(x) {
            Some(r) if !r.is_nan() => r,
            _ => continue,
        };
        let eps = 1e-12 * x.abs().max(1e-300);
        let lo = cents.partition_point(|c| c.0 < x - eps);
        let hi = cents.partition_point(|c| c.0 <= x + eps);
        let w_eq: u64 = cents[lo..hi].iter().map(|c| c.1).sum();
        let w_left = if lo > 0 { cents[lo - 1].1 } else { 0 };
        let w_right = if hi < cents.len() { cents[hi].1 } else { 0 };
        // W_eq counts 1.5 times: for a run of tied centroids rank() answers the midpoint between the
        // centres of the first and the last of them, which is up to W_eq/4 away from the run's mid-rank
        let tol = 1.25 * ((1.5 * w_eq as f64 + (w_left + w_right) as f64) / (2.0 * n) + 1.0 / n);
        let err = (r - q).abs();
        worst = worst.max(err / tol);
        if err > tol * (1.0 + 1e-9) {
            ctx.violation(
                &sig("rank(quantile(q)) farther from q than the digest's resolution"),
                format!("{}: q {} quantile {} rank {} |err| {} tolerance {} (W_eq {} w_left {} w_right {})", tag, q, x, r, err, tol, w_eq, w_left, w_right),
            );
            break;
        }
    }
    ctx.cover_max("worst_rank_quantile_error_over_tolerance", worst);
}

pub const RANGE_EXCEEDS_F64: &str = "magnitude-above-1e300";
pub const SINGLETON_NOT_EXTREME: &str = "singleton-extreme-centroid-inside-(min,max)";

fn check_all(ctx: &mut Ctx, d: &mut TDigestMut, expect_total: Option<u64>, mm: Option<(f64, f64)>, class: &str, what: &str, nq: usize) {
    // A query must not change the answers: the first rank() after a batch of updates (values may still be buffered)
    // has to equal the same rank() asked again after another query has flushed the buffer.
    if let Some((mn, mx)) = mm {
        let probes = [mn, mx, mn / 2.0 + mx / 2.0];
        let cold: Vec<Option<f64>> = probes.iter().map(|v| d.rank(*v)).collect();
        let _ = d.quantile(0.5);
        let warm: Vec<Option<f64>> = probes.iter().map(|v| d.rank(*v)).collect();
        ctx.evals(1);
        let same = cold.iter().zip(&warm).all(|(a, b)| a.map(f64::to_bits) == b.map(f64::to_bits));
        if !same {
            ctx.violation(
                &if class.is_empty() { "rank() answers differently before and after another query".to_string() } else { format!("rank() answers differently before and after another query | class={}", class) },
                format!("{}: rank at min / max / midrange {:?} first, {:?} after quantile(0.5)", what, cold, warm),
            );
        }
    }
    let cent = match centroids_of(d) {
        Ok(c) => c,
        Err(e) => {
            ctx.violation("image of the digest does not decode with the spec decoder", format!("{}: {}", what, e));
            return;
        }
    };
    // A state only reachable from a foreign image (heavy extreme centroid, true extreme outside its mean)
    // followed by an update or merge that puts a single sample between that extreme and the centroid:
    // it gets its own class label so that what is known about it stays separate from everything else.
    let nc = cent.centroids.len();
    let odd = nc >= 2
        && ((cent.centroids[0].1 == 1 && cent.min < cent.centroids[0].0) || (cent.centroids[nc - 1].1 == 1 && cent.max > cent.centroids[nc - 1].0));
    // values whose differences overflow f64 (both signs near f64::MAX): labelled, see known_findings.json
    // (magnitudes above 1e300: products of a value with a cluster weight, or differences of two values, leave f64)
    let overflowing = nc >= 1 && cent.max.abs().max(cent.min.abs()) > 1e300;
    let class = if overflowing { RANGE_EXCEEDS_F64 } else if odd { SINGLETON_NOT_EXTREME } else { class };
    if overflowing {
        ctx.cover("state_range_exceeds_f64");
    }
    if odd {
        ctx.cover("state_singleton_extreme_not_at_extreme");
    }
    check_shape(ctx, d, &cent, expect_total, mm, class, what, nq);
    let mut frozen = d.clone().freeze();
    check_shape(ctx, &mut frozen, &cent, expect_total, mm, class, what, nq);
    // unfreeze gives back an equivalent mutable digest
    let mut back = frozen.unfreeze();
    if back.total_weight() != d.total_weight() || back.min_value() != d.min_value() || back.max_value() != d.max_value() {
        ctx.violation("freeze/unfreeze changed the digest", what.to_string());
    }
    let q = back.quantile(0.5);
    let q2 = d.quantile(0.5);
    if q != q2 && !(q.map(|x| x.is_nan()).unwrap_or(false) && q2.map(|x| x.is_nan()).unwrap_or(false)) {
        ctx.violation("freeze/unfreeze changed the answers", format!("{}: median {:?} vs {:?}", what, q, q2));
    }
}

fn history_case(ctx: &mut Ctx, case: &Json) {
    let mut rng = Rng::new(case.u64("seed").unwrap_or(0));
    let k = case.u64("k").unwrap_or(100) as u16;
    let shape = case.str("shape").unwrap_or("uniform").to_string();
    let n = case.u64("n").unwrap_or(1000) as usize;
    let nq = case.u64("nq").unwrap_or(500) as usize;
    // both constructors; a quarter of the streams mirrored (all-negative data for the shapes that are positive)
    let mut d = if case.u64("seed").unwrap_or(0) % 2 == 0 { TDigestMut::new(k) } else { TDigestMut::try_new(k).expect("documented k") };
    let mut offered: u64 = 0;
    let mut mn = f64::INFINITY;
    let mut mx = f64::NEG_INFINITY;
    let mut values = gen_values(&mut rng, &shape, n);
    if case.u64("seed").unwrap_or(0) % 4 >= 2 && case.u64("seed").unwrap_or(0) % 8 >= 6 {
        for v in values.iter_mut() {
            *v = -*v;
        }
        ctx.cover("stream_mirrored");
    }
    let checkpoints: Vec<usize> = {
        let mut c = vec![1usize, 2, 3, 5, 17, 100];
        let mut x = 300;
        while x < values.len() {
            c.push(x);
            x *= 4;
        }
        c
    };
    check_all(ctx, &mut d, Some(0), None, "", &format!("k={} shape={} fresh", k, shape), nq);
    for (i, &v) in values.iter().enumerate() {
        d.update(v);
        offered += 1;
        mn = mn.min(v);
        mx = mx.max(v);
        if rng.chance(0.002) {
            // non-finite values are ignored
            d.update(*rng.pick(&[f64::NAN, f64::INFINITY, f64::NEG_INFINITY]));
            ctx.cover("nonfinite_offered");
        }
        if checkpoints.contains(&(i + 1)) {
            check_all(ctx, &mut d, Some(offered), Some((mn, mx)), "", &format!("k={} shape={} after {} updates", k, shape, i + 1), nq);
        }
        if rng.chance(3.0 / values.len().max(1) as f64) {
            match rng.below(3) {
                0 => {
                    // merge a partner (other k, other shape, possibly empty)
                    let k2 = *rng.pick(&[10u16, 30, 100, 200, k]);
                    let shape2 = *rng.pick(&SHAPES[..15]);
                    let n2 = *rng.pick(&[0usize, 1, 2, 50, 2000]);
                    let mut other = TDigestMut::new(k2);
                    let mut foreign = false;
                    if rng.chance(0.3) {
                        // the partner is a digest read from a foreign image whose extremes lie outside its
                        // centroid means (heavy first/last centroid)
                        let class = *rng.pick(&["heavy-first", "heavy-last", "min<first-mean,max>last-mean"]);
                        let im = synth_image(&mut rng, class, k2);
                        if let Ok(o) = TDigestMut::deserialize(&spec::encode_native(&im, false), false) {
                            other = o;
                            foreign = true;
                            offered += im.total_weight();
                            mn = mn.min(im.min);
                            mx = mx.max(im.max);
                            ctx.cover("op_merge_deserialized_partner");
                        }
                    }
                    if !foreign {
                        for v2 in gen_values(&mut rng, shape2, n2) {
                            other.update(v2);
                            offered += 1;
                            mn = mn.min(v2);
                            mx = mx.max(v2);
                        }
                    }
                    d.merge(&other);
                    ctx.cover("op_merge");
                    check_all(ctx, &mut d, Some(offered), Some((mn, mx)), "", &format!("k={} shape={} after merge of k={} {} n={}", k, shape, k2, shape2, other.total_weight()), nq);
                }
                1 => {
                    d = d.freeze().unfreeze();
                    ctx.cover("op_freeze_unfreeze");
                }
                _ => {
                    let img = d.serialize();
                    match TDigestMut::deserialize(&img, false) {
                        Ok(x) => d = x,
                        Err(e) => ctx.violation("a digest's own image does not deserialize", format!("k={} shape={}: {}", k, shape, e)),
                    }
                    ctx.cover("op_roundtrip");
                }
            }
        }
    }
    check_all(ctx, &mut d, Some(offered), if offered > 0 { Some((mn, mx)) } else { None }, "", &format!("k={} shape={} end n={}", k, shape, offered), nq);
    ctx.cover(&format!("shape_{}", shape));
    ctx.cover(&format!("k_{}", k));
    let mut fp = Fp::new();
    fp.u64(k as u64);
    fp.u64(offered);
    fp.f64(mn);
    fp.f64(mx);
    fp.f64(d.quantile(0.37).unwrap_or(0.0));
    ctx.end_case(fp.get(), offered > 1);
}

pub const IMAGE_CLASSES: [&str; 9] = [
    "plain",
    "heavy-first",
    "heavy-last",
    "last-weight-2",
    "first-weight-2",
    "tied-means",
    "two-centroids",
    "min<first-mean,max>last-mean",
    "with-buffered-values",
];

/// A valid image whose sorted, positive-weight centroid list the in-process algorithm never produces.
pub fn synth_image(rng: &mut Rng, class: &str, k: u16) -> spec::TdImage {
    let nc = match class {
        "two-centroids" => 2,
        _ => rng.usize(2, 40),
    };
    let mut means: Vec<f64> = (0..nc).map(|_| (rng.normal() * 100.0 * 8.0).round() / 8.0).collect();
    means.sort_by(|a, b| a.partial_cmp(b).unwrap());
    if class != "tied-means" {
        means.dedup();
        while means.len() < 2 {
            let last = *means.last().unwrap();
            means.push(last + 1.0);
        }
    } else {
        // runs of equal means
        for i in 1..means.len() {
            if rng.chance(0.4) {
                means[i] = means[i - 1];
            }
        }
    }
    let nc = means.len();
    let mut weights: Vec<u64> = (0..nc).map(|_| if rng.chance(0.4) { 1 } else { rng.range(1, 30) }).collect();
    match class {
        "heavy-first" => weights[0] = rng.range(3, 500),
        "heavy-last" => weights[nc - 1] = rng.range(3, 500),
        "last-weight-2" => weights[nc - 1] = 2,
        "first-weight-2" => weights[0] = 2,
        "plain" | "with-buffered-values" => {
            weights[0] = 1;
            weights[nc - 1] = 1;
        }
        _ => {}
    }
    // A centroid of weight 1 is a sample: an extreme centroid of weight 1 IS the minimum / maximum.
    // Only a heavier extreme centroid can have the true extreme strictly outside its mean, otherwise the
    // image would contradict itself (and would not be a valid image).
    if class == "min<first-mean,max>last-mean" {
        weights[0] = weights[0].max(2);
        weights[nc - 1] = weights[nc - 1].max(2);
    }
    let (mut min, mut max) = (means[0], means[nc - 1]);
    if weights[0] > 1 && (class == "min<first-mean,max>last-mean" || rng.chance(0.8)) {
        min -= rng.f64() * 10.0 + 0.125;
    }
    if weights[nc - 1] > 1 && (class == "min<first-mean,max>last-mean" || rng.chance(0.8)) {
        max += rng.f64() * 10.0 + 0.125;
    }
    let mut buffered = vec![];
    if class == "with-buffered-values" {
        for _ in 0..rng.usize(1, 30) {
            buffered.push(min + rng.f64() * (max - min));
        }
    }
    spec::TdImage {
        k,
        empty: false,
        single: false,
        reverse_merge: rng.chance(0.5),
        min,
        max,
        centroids: means.into_iter().zip(weights).collect(),
        buffered,
    }
}

fn image_case(ctx: &mut Ctx, case: &Json) {
    let mut rng = Rng::new(case.u64("seed").unwrap_or(0));
    let class = case.str("class").unwrap_or("plain").to_string();
    let k = case.u64("k").unwrap_or(100) as u16;
    let nq = case.u64("nq").unwrap_or(500) as usize;
    let im = synth_image(&mut rng, &class, k);
    let encoding = *rng.pick(&["native-double", "native-float", "reference-double", "reference-float"]);
    let (bytes, is_f32) = match encoding {
        "native-double" => (spec::encode_native(&im, false), false),
        "native-float" => (spec::encode_native(&im, true), true),
        "reference-double" => (spec::encode_ref_double(&im), false),
        _ => (spec::encode_ref_float(&im), false),
    };
    if encoding.starts_with("reference") && !im.buffered.is_empty() {
        // the reference encodings have no buffer section
        ctx.end_case(0, false);
        return;
    }
    // what the chosen encoding can represent (float encodings round means, and native-float also min/max)
    let f = |x: f64| (x as f32) as f64;
    let (emin, emax) = if encoding == "native-float" { (f(im.min), f(im.max)) } else { (im.min, im.max) };
    let what = format!("image class={} encoding={} k={} centroids={:?}", class, encoding, k, &im.centroids[..im.centroids.len().min(6)]);
    if std::env::var("DSVERIF_DEBUG").is_ok() {
        eprintln!("image {:?}", im);
        if let Ok(mut d) = TDigestMut::deserialize(&bytes, is_f32) {
            let c = centroids_of(&mut d).unwrap();
            eprintln!("decoded {:?}", c);
            for q in [0.9, 0.95, 0.99, 1.0] {
                let x = d.quantile(q).unwrap();
                eprintln!("q {} -> {} rank {:?}", q, x, d.rank(x));
            }
        }
    }
    match TDigestMut::deserialize(&bytes, is_f32) {
        Err(e) => ctx.violation(&format!("valid image rejected | class={}", class), format!("{}: {}", what, e)),
        Ok(mut d) => {
            let total = im.total_weight();
            check_all(ctx, &mut d, Some(total), Some((emin, emax)), &class, &what, nq);
            // the deserialized digest keeps living: updates inside and outside its range, then a merge
            let (mut mn, mut mx, mut tot) = (emin, emax, total);
            for j in 0..rng.usize(1, 12) {
                let v = match rng.below(4) {
                    0 => emin - rng.f64() * 5.0,
                    1 => emax + rng.f64() * 5.0,
                    _ => emin + rng.f64() * (emax - emin),
                };
                d.update(v);
                mn = mn.min(v);
                mx = mx.max(v);
                tot += 1;
                if j % 4 == 0 {
                    check_all(ctx, &mut d, Some(tot), Some((mn, mx)), &class, &format!("{} + {} updates", what, j + 1), nq);
                }
            }
            let mut fresh = TDigestMut::new(k);
            for _ in 0..rng.usize(0, 40) {
                let v = rng.normal() * 50.0;
                fresh.update(v);
                mn = mn.min(v);
                mx = mx.max(v);
                tot += 1;
            }
            fresh.merge(&d);
            check_all(ctx, &mut fresh, Some(tot), Some((mn, mx)), &class, &format!("{} + updates, merged into a fresh digest", what), nq);
            ctx.cover(&format!("image_class_{}", class));
            ctx.cover(&format!("image_encoding_{}", encoding));
        }
    }
    let mut fp = Fp::new();
    fp.bytes(&bytes);
    ctx.end_case(fp.get(), true);
}


pub const SCENARIOS: [&str; 5] = [
    "empty_split_points",
    "left_tail_rank_heavy_first",
    "right_tail_quantile_heavy_last",
    "quantile_interpolation_monotone",
    "last_centroid_weight_2",
];

/// Explicit digests (witnesses of fixed findings).
fn scenario_case(ctx: &mut Ctx, case: &Json) {
    let name = case.str("name").unwrap_or("").to_string();
    let nq = 1000;
    let img = |cents: Vec<(f64, u64)>, min: f64, max: f64| spec::TdImage {
        k: 100,
        empty: false,
        single: false,
        reverse_merge: false,
        min,
        max,
        centroids: cents,
        buffered: vec![],
    };
    let run_img = |ctx: &mut Ctx, im: spec::TdImage, label: &str| {
        let bytes = spec::encode_native(&im, false);
        match TDigestMut::deserialize(&bytes, false) {
            Ok(mut d) => check_all(ctx, &mut d, Some(im.total_weight()), Some((im.min, im.max)), label, &format!("scenario {}", label), nq),
            Err(e) => ctx.violation("valid image rejected", format!("scenario {}: {}", label, e)),
        }
    };
    match name.as_str() {
        "empty_split_points" => {
            let mut d = TDigestMut::new(100);
            for i in 0..1000 {
                d.update(i as f64);
            }
            check_all(ctx, &mut d, Some(1000), Some((0.0, 999.0)), "", "scenario empty_split_points", nq);
        }
        "left_tail_rank_heavy_first" => {
            run_img(ctx, img(vec![(10.0, 40), (20.0, 5), (30.0, 1)], 2.0, 30.0), "heavy-first");
        }
        "right_tail_quantile_heavy_last" => {
            run_img(ctx, img(vec![(10.0, 1), (20.0, 5), (30.0, 40)], 10.0, 38.0), "heavy-last");
        }
        "quantile_interpolation_monotone" => {
            for k in [10u16, 100] {
                let mut d = TDigestMut::new(k);
                let mut rng = Rng::new(42);
                let mut mn = f64::INFINITY;
                let mut mx = f64::NEG_INFINITY;
                for _ in 0..5000 {
                    let v = rng.f64();
                    mn = mn.min(v);
                    mx = mx.max(v);
                    d.update(v);
                }
                check_all(ctx, &mut d, Some(5000), Some((mn, mx)), "", &format!("scenario quantile_interpolation_monotone k={}", k), nq);
            }
        }
        _ => {
            run_img(ctx, img(vec![(10.0, 1), (20.0, 5), (30.0, 2)], 10.0, 33.0), "last-weight-2");
            run_img(ctx, img(vec![(-5.0, 3), (20.0, 2)], -9.0, 21.0), "two-centroids");
        }
    }
    ctx.cover(&format!("scenario_{}", name));
    ctx.end_case(rt::mix_str(&name), true);
}

pub fn run_case(ctx: &mut Ctx, case: &Json) {
    ctx.begin_case(case.clone());
    let r = rt::guard(|| match case.str("lane") {
        Some("history") => history_case(ctx, case),
        Some("image") => image_case(ctx, case),
        Some("scenario") => scenario_case(ctx, case),
        other => ctx.inconclusive(format!("C10: unknown lane {:?}", other)),
    });
    if let Err(p) = r {
        let cls = case.str("class").unwrap_or("").to_string();
        let entry = if cls.is_empty() { "TDigest".to_string() } else { format!("TDigest class={}", cls) };
        ctx.panic_violation(&entry, &p);
    }
}

pub const KS: [u16; 8] = [10, 11, 29, 30, 50, 100, 200, 500];

pub fn run(ctx: &mut Ctx) {
    ctx.note(
        "rule",
        Json::Str(
            "history lane: one case = one (k, shape, n) stream with interleaved merges (other k, other shape, empty), \
             freeze/unfreeze and serialize/deserialize, queried at ~8 checkpoints on a grid of q in [0,1] (plus the j/n \
             breakpoints) and on centroid means +-1ulp, midpoints, extremes and outside, on both TDigestMut and the \
             frozen TDigest; image lane: digests deserialized from spec-encoded images (native double/float, reference \
             big-endian double/float) with centroid lists the in-process algorithm never produces. distinct = \
             fingerprint of (k, n, min, max, a quantile) or of the image bytes; non-trivial = more than one value"
                .into(),
        ),
    );
    if ctx.shard == 0 {
        for name in SCENARIOS {
            run_case(ctx, &Json::obj().set("lane", "scenario").set("name", name));
        }
    }
    let n_hist = ctx.tier_pick(160u64, 1500);
    let mut rng = ctx.rng("cases");
    for i in 0..n_hist {
        let k = *rng.pick(&KS);
        let shape = SHAPES[(i as usize + ctx.shard) % SHAPES.len()];
        let n = *rng.pick(&if ctx.quick() { [1u64, 7, 300, 3000, 20_000, 100_000] } else { [1u64, 7, 300, 5000, 100_000, 1_000_000] });
        let case = Json::obj()
            .set("lane", "history")
            .set("k", k)
            .set("shape", shape)
            .set("n", n)
            .set("nq", ctx.tier_pick(400u64, 2000))
            .set("seed", ctx.case_seed("hist", i));
        run_case(ctx, &case);
        if i == 0 {
            ctx.sample(case);
        }
    }
    let n_img = ctx.tier_pick(900u64, 20000);
    for i in 0..n_img {
        let class = IMAGE_CLASSES[(i as usize) % IMAGE_CLASSES.len()];
        let case = Json::obj()
            .set("lane", "image")
            .set("class", class)
            .set("k", *rng.pick(&KS))
            .set("nq", ctx.tier_pick(300u64, 2000))
            .set("seed", ctx.case_seed("img", i));
        run_case(ctx, &case);
        if i == 1 {
            ctx.sample(case);
        }
    }
}

pub fn replay(ctx: &mut Ctx, case: &Json) {
    run_case(ctx, case);
}
