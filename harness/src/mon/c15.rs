//! C15 — t-digest stays small and accurate: bounded centroids, tail-tight rank error.

use datasketches::tdigest::TDigestMut;

use super::td_common::{centroids_of, gen_values, Exact, SHAPES};
use crate::rt::{self, Ctx, Fp, Json, Rng};

/// u(q): the k2 scale function's largest admissible cluster at q, in rank units
pub fn resolution(q: f64, n: f64, k: f64) -> f64 {
    let z = 4.0 * (n / (2.0 * k)).max(1.0).ln() + 24.0;
    (q * (1.0 - q)).max(1.0 / n) * z / (2.0 * k) + 0.5 / n
}

/// structure + accuracy of one digest state against the exact data
pub fn check_digest(ctx: &mut Ctx, d: &mut TDigestMut, exact: &Exact, shape: &str, what: &str) {
    let k = d.k();
    check_digest_acc(ctx, d, exact, shape, what, k);
}

/// `k_acc`: the k that limits the accuracy -- the smallest k any part of the data was ever summarised with (a digest
/// built with k = 10 does not become more accurate by being merged into a receiver of k = 100). The structural
/// bounds (centroid count, image size) are always those of the digest's own k.
pub fn check_digest_acc(ctx: &mut Ctx, d: &mut TDigestMut, exact: &Exact, shape: &str, what: &str, k_acc: u16) {
    ctx.evals(1);
    let k_own = d.k() as f64;
    let k = k_acc as f64;
    let n = exact.n();
    let tag = format!("{} [k={} (accuracy judged at k={}) n={} shape={}]", what, d.k(), k_acc, n, shape);
    if d.total_weight() != n as u64 {
        ctx.violation("total_weight != number of finite values offered", format!("{}: {}", tag, d.total_weight()));
    }
    if n == 0 {
        return;
    }
    // "cold" queries first: the digest may hold buffered values that no query has flushed yet, and the first
    // rank() must already answer for all of them (serialize / quantile / cdf below would flush the buffer)
    {
        let nf = n as f64;
        for j in [0usize, n / 4, n / 2, (3 * n) / 4, n - 1] {
            let v = exact.sorted[j];
            let t = exact.rank(v);
            if let Some(r) = d.rank(v) {
                let u = resolution(t, nf, k);
                ctx.evals(1);
                // an untied minimum / maximum is known exactly: its rank is the mid-rank of one sample
                let untied_extreme = (j == 0 && (n == 1 || exact.sorted[1] > v)) || (j == n - 1 && (n == 1 || exact.sorted[n - 2] < v));
                if untied_extreme && (r - t).abs() > 1.0 / nf + 1e-12 {
                    ctx.violation(
                        &format!("rank at the extremes off by more than one sample | shape={}", shape),
                        format!("{}: first query after the updates: rank({}) = {} true {}", tag, v, r, t),
                    );
                    break;
                }
                if (r - t).abs() > 3.0 * u + 1.5 / nf {
                    ctx.violation(
                        &format!("rank error above 3 x resolution | shape={}", shape),
                        format!("{}: first query after the updates: rank({}) = {} true {} (u(q) = {})", tag, v, r, t, u),
                    );
                    break;
                }
            }
        }
    }
    let img_bytes = d.serialize();
    let im = match centroids_of(d) {
        Ok(im) => im,
        Err(e) => {
            ctx.violation("image of the digest does not decode with the spec decoder", format!("{}: {}", tag, e));
            return;
        }
    };
    let nc = im.centroids.len();
    ctx.cover_max("max_centroids_over_2k_plus_30", nc as f64 / (2.0 * k_own + 30.0));
    if nc as f64 > 2.0 * k_own + 30.0 {
        ctx.violation("more than 2k+30 centroids", format!("{}: {} centroids", tag, nc));
    }
    let want_len = if n == 1 { 16 } else { 32 + 16 * nc };
    if img_bytes.len() != want_len {
        ctx.violation("serialized size is not 32 + 16 * centroids", format!("{}: {} bytes, {} centroids", tag, img_bytes.len(), nc));
    }
    let wsum: u64 = im.centroids.iter().map(|c| c.1).sum();
    if wsum != d.total_weight() || im.centroids.iter().any(|c| c.1 == 0) {
        ctx.violation("centroid weights do not sum to total_weight", format!("{}: sum {} total {}", tag, wsum, d.total_weight()));
    }
    let (min, max) = (exact.sorted[0], exact.sorted[n - 1]);
    if im.min != min || im.max != max {
        ctx.violation("min/max are not the exact extremes", format!("{}: {} {} want {} {}", tag, im.min, im.max, min, max));
    }
    // no cluster heavier than the scale function admits at its place (weight > 1 only; calibration: see DESIGN 12.1)
    {
        let nf = n as f64;
        let mut cum = 0u64;
        let mut worst = 0.0f64;
        for c in &im.centroids {
            let q = (cum as f64 + c.1 as f64 / 2.0) / nf;
            if c.1 > 1 {
                worst = worst.max((c.1 as f64 / nf) / resolution(q, nf, k));
            }
            cum += c.1;
        }
        ctx.cover_max(&format!("heaviest_cluster_over_u_{}", shape), worst);
        ctx.cover_max("heaviest_cluster_over_u", worst);
        // on the repaired tree the ratio is at most 1.00 in every shape, order, k and merge tree (it is the rule the
        // merge applies); 1.5 leaves room for the rounding of q at small n
        if worst > 1.5 {
            ctx.violation(
                &format!("a cluster is heavier than the scale function admits | shape={}", shape),
                format!("{}: heaviest cluster = {:.2} x the admissible size at its quantile", tag, worst),
            );
        }
    }
    let sorted = im.centroids.windows(2).all(|w| w[0].0 <= w[1].0);
    let inside = im.centroids.iter().all(|c| c.0 >= min && c.0 <= max);
    if !sorted || !inside {
        ctx.violation("centroid means not sorted inside [min, max]", format!("{}: sorted {} inside {}", tag, sorted, inside));
    }
    // accuracy against the exact empirical distribution (mid-rank for ties)
    let nf = n as f64;
    let mut probes: Vec<f64> = vec![];
    let grid = 1000usize.min(n);
    for j in 0..grid {
        probes.push(exact.sorted[(j * (n - 1)) / grid.max(2).saturating_sub(1).max(1)]);
    }
    for j in 0..20.min(n) {
        probes.push(exact.sorted[j]);
        probes.push(exact.sorted[n - 1 - j]);
    }
    // between the data: midpoints of adjacent distinct values (just beside a heavy atom the rank must already have
    // jumped by the atom's whole mass)
    let step = (n / 200).max(1);
    let mut j = 0;
    while j + 1 < n {
        let (a, b) = (exact.sorted[j], exact.sorted[j + 1]);
        if a < b {
            let mid = a + (b - a) / 2.0;
            if mid > a && mid < b {
                probes.push(mid);
            }
        }
        j += step;
    }
    // and on both sides of the heaviest atom
    {
        let mut best = (0usize, 0usize);
        let mut i = 0;
        while i < n {
            let hi = exact.sorted.partition_point(|x| *x <= exact.sorted[i]);
            if hi - i > best.1 {
                best = (i, hi - i);
            }
            i = hi;
        }
        if best.1 > 1 {
            let v = exact.sorted[best.0];
            if best.0 > 0 {
                probes.push(exact.sorted[best.0 - 1] + (v - exact.sorted[best.0 - 1]) / 2.0);
            }
            if best.0 + best.1 < n {
                probes.push(v + (exact.sorted[best.0 + best.1] - v) / 2.0);
            }
        }
    }
    let mut worst = 0.0f64;
    let mut worst_units = 0.0f64;
    let mut worst_at = (0.0, 0.0, 0.0);
    for &v in &probes {
        let t = exact.rank(v);
        let r = match d.rank(v) {
            Some(r) => r,
            None => continue,
        };
        let u = resolution(t, nf, k);
        let ratio = (r - t).abs() / u;
        let units = (r - t).abs() / (t * (1.0 - t) / k + 1.0 / nf);
        if units > worst_units {
            worst_units = units;
        }
        if ratio > worst {
            worst = ratio;
            worst_at = (v, r, t);
        }
    }
    ctx.evals(probes.len() as u64);
    ctx.cover_max(&format!("worst_error_over_u_{}", shape), worst);
    ctx.cover_max(&format!("worst_error_in_units_of_q(1-q)/k+1/n_{}", shape), worst_units);
    if n >= 1000 {
        ctx.cover_max(&format!("worst_units_n>=1000_k{}", k_acc), worst_units);
    }
    if worst > 3.0 {
        // the shape label is part of the signature: one exotic input family must not mask the others
        ctx.violation(
            &format!("rank error above 3 x resolution | shape={}", shape),
            format!("{}: rank({}) = {} true {} = {:.2} x u(q)", tag, worst_at.0, worst_at.1, worst_at.2, worst),
        );
    }
    // Smooth distributions: inside a cluster the linear interpolation follows the data, and the error stays at a
    // few multiples of q(1-q)/k + 1/n -- far below the cluster size u(q) that bounds it for distributions with
    // atoms and gaps. Calibration on the repaired tree: worst 7.0 over 8 seeds x 6 400 quick cases, 7.2 in a thorough run.
    // (sawtooth -- repeated ascending blocks -- is not among them: 7.8 in the quick tier but 13.4 at n = 10^6 in a
    // 12-way merge tree; the seven others stay below 7.2 in both tiers)
    const SMOOTH: [&str; 7] = ["exponential", "normal", "uniform", "sorted", "reversed", "tiny-magnitude", "huge-magnitude"];
    if SMOOTH.contains(&shape) && worst_units > 12.0 {
        ctx.violation(
            &format!("rank error above 12 x (q(1-q)/k + 1/n) on a smooth distribution | shape={}", shape),
            format!("{}: worst error {:.1} units (rank({}) = {} true {})", tag, worst_units, worst_at.0, worst_at.1, worst_at.2),
        );
    }
    // exact to one sample at the extremes
    let r_min = d.rank(min).unwrap_or(f64::NAN);
    let r_max = d.rank(max).unwrap_or(f64::NAN);
    let t_min = exact.rank(min);
    let t_max = exact.rank(max);
    if (r_min - t_min).abs() > 1.5 / nf || (r_max - t_max).abs() > 1.5 / nf {
        // ties at the extremes are covered by the general clause (mid-rank of a heavy tie is not 1/n)
        let tie_min = exact.sorted.partition_point(|x| *x <= min);
        let tie_max = n - exact.sorted.partition_point(|x| *x < max);
        if tie_min == 1 && tie_max == 1 {
            ctx.violation(
                &format!("rank at the extremes off by more than 1.5 samples | shape={}", shape),
                format!("{}: rank(min) {} true {} rank(max) {} true {}", tag, r_min, t_min, r_max, t_max),
            );
        }
    }
}

fn stream_case(ctx: &mut Ctx, case: &Json) {
    let mut rng = Rng::new(case.u64("seed").unwrap_or(0));
    let k = case.u64("k").unwrap_or(100) as u16;
    let shape = case.str("shape").unwrap_or("uniform").to_string();
    let n = case.u64("n").unwrap_or(1000) as usize;
    let parts = case.u64("merge_parts").unwrap_or(1) as usize;
    let mut values = gen_values(&mut rng, &shape, n);
    // arrival order: as generated, ascending or descending (every shape, not only the uniform "sorted"/"reversed")
    match case.u64("order").unwrap_or(0) {
        1 => values.sort_by(|a, b| a.partial_cmp(b).unwrap()),
        2 => values.sort_by(|a, b| b.partial_cmp(a).unwrap()),
        _ => {}
    }
    ctx.cover(&format!("order_{}", case.u64("order").unwrap_or(0)));
    let mut all: Vec<f64> = vec![];
    let mut d = TDigestMut::new(k);
    if parts <= 1 {
        let mut next_check = 1usize;
        for (i, &v) in values.iter().enumerate() {
            d.update(v);
            all.push(v);
            if rng.chance(0.002) {
                // NaN and the infinities are ignored: they change nothing, not even min / max
                d.update(*rng.pick(&[f64::NAN, f64::INFINITY, f64::NEG_INFINITY]));
                ctx.cover("nonfinite_offered");
            }
            if i + 1 == next_check {
                let ex = Exact::new(all.clone());
                if rng.chance(0.5) {
                    // a copy taken mid-stream (values may still be buffered) is the same digest
                    let mut c = d.clone();
                    check_digest(ctx, &mut c, &ex, &shape, &format!("clone of the streamed digest after {} updates", i + 1));
                    ctx.cover("clone_mid_stream");
                } else {
                    check_digest(ctx, &mut d, &ex, &shape, &format!("streamed, after {} updates", i + 1));
                }
                next_check = (next_check * 4).max(next_check + 1);
            }
        }
    } else {
        // merge tree of `parts` digests (same k), built from chunks (contiguous or interleaved)
        let interleaved = rng.chance(0.5);
        let mut ds: Vec<TDigestMut> = (0..parts).map(|_| TDigestMut::new(k)).collect();
        for (i, &v) in values.iter().enumerate() {
            let p = if interleaved { i % parts } else { (i * parts) / values.len().max(1) };
            ds[p.min(parts - 1)].update(v);
            all.push(v);
        }
        // binary merge tree
        while ds.len() > 1 {
            let mut next = vec![];
            let mut it = ds.into_iter();
            while let Some(mut a) = it.next() {
                if let Some(b) = it.next() {
                    a.merge(&b);
                }
                next.push(a);
            }
            ds = next;
            ctx.cover("merge_tree_levels");
        }
        d = ds.pop().unwrap();
    }
    let ex = Exact::new(all);
    check_digest(ctx, &mut d, &ex, &shape, &format!("{} end", if parts > 1 { format!("merge tree of {}", parts) } else { "streamed".to_string() }));
    // a round trip must not change size or accuracy
    let img = d.serialize();
    if let Ok(mut back) = TDigestMut::deserialize(&img, false) {
        check_digest(ctx, &mut back, &ex, &shape, "after serialize/deserialize");
    }
    ctx.cover(&format!("shape_{}", shape));
    ctx.cover(&format!("k_{}", k));
    let mut fp = Fp::new();
    fp.u64(k as u64);
    fp.u64(ex.n() as u64);
    fp.u64(rt::mix_str(&shape));
    fp.f64(d.quantile(0.5).unwrap_or(0.0));
    ctx.end_case(fp.get(), ex.n() > 1);
}

/// "Chatty" use: the digest is queried after every single update (each query compresses whatever is buffered).
fn chatty_case(ctx: &mut Ctx, case: &Json) {
    let mut rng = Rng::new(case.u64("seed").unwrap_or(0));
    let k = case.u64("k").unwrap_or(100) as u16;
    let shape = case.str("shape").unwrap_or("uniform").to_string();
    let n = case.u64("n").unwrap_or(3000) as usize;
    let mut values = gen_values(&mut rng, &shape, n);
    match case.u64("order").unwrap_or(0) {
        1 => values.sort_by(|a, b| a.partial_cmp(b).unwrap()),
        2 => values.sort_by(|a, b| b.partial_cmp(a).unwrap()),
        _ => {}
    }
    let mut d = TDigestMut::new(k);
    let limit = 32 + 16 * (2 * k as usize + 30);
    let mut all = vec![];
    for (i, &v) in values.iter().enumerate() {
        d.update(v);
        all.push(v);
        let _ = match i % 3 {
            0 => d.rank(v),
            1 => d.quantile(0.5),
            _ => d.cdf(&[v]).map(|c| c[0]),
        };
        if i % 97 == 96 || i + 1 == values.len() {
            ctx.evals(1);
            let len = d.serialize().len();
            if len > limit {
                ctx.violation("more than 2k+30 centroids", format!("queried after every update [k={} shape={} order={}]: image of {} bytes after {} values (limit {})", k, shape, case.u64("order").unwrap_or(0), len, i + 1, limit));
                break;
            }
        }
    }
    let ex = Exact::new(all);
    check_digest(ctx, &mut d, &ex, &shape, "queried after every update");
    ctx.cover("chatty_cases");
    let mut fp = Fp::new();
    fp.u64(k as u64);
    fp.u64(n as u64);
    fp.u64(rt::mix_str(&shape));
    fp.u64(case.u64("seed").unwrap_or(0));
    ctx.end_case(fp.get(), n > 1);
}

/// A fresh receiver takes over a digest built with another k: it must come out as a digest of *its own* k.
fn adopt_case(ctx: &mut Ctx, case: &Json) {
    let mut rng = Rng::new(case.u64("seed").unwrap_or(0));
    let (k_recv, k_src) = (case.u64("k").unwrap_or(20) as u16, case.u64("k_src").unwrap_or(200) as u16);
    let shape = case.str("shape").unwrap_or("uniform").to_string();
    let n = case.u64("n").unwrap_or(20_000) as usize;
    let values = gen_values(&mut rng, &shape, n);
    let mut src = TDigestMut::new(k_src);
    for &v in &values {
        src.update(v);
    }
    // the operand has been used: queried, or round-tripped (nothing buffered)
    let src = match case.u64("via").unwrap_or(0) {
        0 => {
            let _ = src.quantile(0.5);
            src
        }
        1 => match TDigestMut::deserialize(&src.serialize(), false) {
            Ok(x) => x,
            Err(_) => src,
        },
        _ => src,
    };
    let mut r = TDigestMut::new(k_recv);
    if case.bool("used_receiver").unwrap_or(false) {
        r.update(values.first().copied().unwrap_or(0.0));
        r.merge(&src);
        let mut all = values.clone();
        all.push(values.first().copied().unwrap_or(0.0));
        check_digest_acc(ctx, &mut r, &Exact::new(all), &shape, &format!("used receiver k={} after merging a k={} digest", k_recv, k_src), k_recv.min(k_src));
    } else {
        r.merge(&src);
        check_digest_acc(ctx, &mut r, &Exact::new(values.clone()), &shape, &format!("fresh receiver k={} after merging a k={} digest", k_recv, k_src), k_recv.min(k_src));
    }
    ctx.cover("adopt_cases");
    let mut fp = Fp::new();
    fp.u64(k_recv as u64);
    fp.u64(k_src as u64);
    fp.u64(case.u64("seed").unwrap_or(0));
    ctx.end_case(fp.get(), n > 1);
}

pub fn run_case(ctx: &mut Ctx, case: &Json) {
    ctx.begin_case(case.clone());
    let r = rt::guard(|| match case.str("lane") {
        Some("chatty") => chatty_case(ctx, case),
        Some("adopt") => adopt_case(ctx, case),
        _ => stream_case(ctx, case),
    });
    if let Err(p) = r {
        ctx.panic_violation("TDigest", &p);
    }
}

pub fn run(ctx: &mut Ctx) {
    ctx.note(
        "rule",
        Json::Str(
            "one case = one (k, shape, n) stream, streamed into one digest with checkpoints at n = 1,4,16,... or split \
             over a merge tree of 2..16 digests; the centroid list (spec-decoded from the digest's own image) is checked \
             for count <= 2k+30, image size, weight sum, order and range, and rank(v) is compared with the exact sorted \
             data on 1000 data quantiles plus the 20 smallest and largest values (tolerance 3*u(q), 1.5/n at the \
             extremes). distinct = fingerprint of (k, n, shape, median); non-trivial = more than one value"
                .into(),
        ),
    );
    let ks: [u16; 10] = [10, 11, 12, 15, 29, 30, 50, 100, 200, 500];
    let n_cases = ctx.tier_pick(400u64, 4000);
    let mut rng = ctx.rng("cases");
    for i in 0..n_cases {
        let shape = SHAPES[(i as usize + ctx.shard * 5) % SHAPES.len()];
        let k = *rng.pick(&ks);
        let n = *rng.pick(&if ctx.quick() { [1u64, 2, 100, 2000, 30_000, 100_000] } else { [1u64, 2, 100, 5000, 100_000, 1_000_000] });
        let parts = if rng.chance(0.4) { rng.range(2, 16) } else { 1 };
        let case = Json::obj()
            .set("k", k)
            .set("shape", shape)
            .set("n", n)
            .set("merge_parts", parts)
            .set("order", if rng.chance(0.4) { rng.range(1, 2) } else { 0 })
            .set("seed", ctx.case_seed("td", i));
        run_case(ctx, &case);
        if i < 2 {
            ctx.sample(case);
        }
    }
    // chatty use and receivers of another k: a few per shard
    {
        let mut rng = ctx.rng("extra");
        for i in 0..ctx.tier_pick(6u64, 60) {
            let shape = SHAPES[(i as usize * 7 + ctx.shard) % SHAPES.len()];
            let case = Json::obj()
                .set("lane", "chatty")
                .set("k", *rng.pick(&[10u64, 12, 30, 100]))
                .set("shape", shape)
                .set("n", ctx.tier_pick(2500u64, 20_000))
                .set("order", rng.below(3))
                .set("seed", ctx.case_seed("chatty", i));
            run_case(ctx, &case);
            let case = Json::obj()
                .set("lane", "adopt")
                .set("k", *rng.pick(&[10u64, 20, 50, 100]))
                .set("k_src", *rng.pick(&[10u64, 100, 200, 500]))
                .set("shape", SHAPES[(i as usize * 5 + ctx.shard + 3) % SHAPES.len()])
                .set("n", *rng.pick(&[500u64, 5000, 50_000]))
                .set("via", rng.below(3))
                .set("used_receiver", rng.chance(0.3))
                .set("seed", ctx.case_seed("adopt", i));
            run_case(ctx, &case);
        }
    }
    // the corner where the size limit of the merge matters most: small k, long streams, sorted arrival
    {
        let smooth = ["exponential", "normal", "uniform", "sorted", "reversed", "tiny-magnitude", "huge-magnitude"];
        let k = [10u64, 11, 12, 15][ctx.shard % 4];
        let case = Json::obj()
            .set("k", k)
            .set("shape", smooth[(ctx.shard / 4 + ctx.shard) % smooth.len()])
            .set("n", ctx.tier_pick(100_000u64, 1_000_000))
            .set("merge_parts", 1u64)
            .set("order", 1 + (ctx.shard as u64 / 2) % 2)
            .set("seed", ctx.case_seed("td-corner", 0));
        run_case(ctx, &case);
    }
    // the witness of the listed open finding is replayed by the driver; exploration also meets the shape
}

pub fn replay(ctx: &mut Ctx, case: &Json) {
    run_case(ctx, case);
}
