//! C05 — a CPC sketch's state is exactly the set of distinct (row, column) coupons seen.

use datasketches::cpc::{CpcSketch, CpcUnion};
use datasketches::verif::CpcState;

use crate::model::cpc::{self as m, CpcModel};
use crate::refhash;
use crate::rt::{self, Ctx, Fp, Json, Rng};

/// Rebuild the bit matrix from the raw parts of a dump (independent of the library's own builder).
pub fn reconstruct(st: &CpcState) -> Vec<u64> {
    let k = 1usize << st.lg_k;
    let default_row = (1u64 << st.window_offset) - 1;
    let mut mat = vec![default_row; k];
    if st.num_coupons == 0 {
        return vec![0; k];
    }
    if !st.sliding_window.is_empty() {
        for r in 0..k {
            mat[r] |= (st.sliding_window[r] as u64) << st.window_offset;
        }
    }
    for &rc in &st.table_items {
        let row = (rc >> 6) as usize;
        if row < k {
            mat[row] ^= 1u64 << (rc & 63);
        }
    }
    mat
}

/// Structural invariants of a CPC sketch against the matrix it must represent.
/// `hip`: Some((kxp, hip)) when the HIP registers are to be compared.
pub fn check_cpc_state(ctx: &mut Ctx, sk: &CpcSketch, want: &[u64], hip: Option<(f64, f64, f64, f64)>, what: &str) -> bool {
    let st = sk.verif_state();
    let lg_k = st.lg_k;
    let k = 1usize << lg_k;
    let c = want.iter().map(|w| w.count_ones() as u64).sum::<u64>();
    let mut ok = true;
    ctx.evals(1);
    let fail = |ctx: &mut Ctx, sig: &str, msg: String| {
        ctx.violation(sig, format!("{} lg_k={} C={}: {}", what, lg_k, c, msg));
    };
    if st.num_coupons as u64 != c || sk.num_coupons() as u64 != c {
        ok = false;
        fail(ctx, "num_coupons != number of distinct pairs", format!("num_coupons {} model {}", st.num_coupons, c));
    }
    if want.len() != k {
        fail(ctx, "lg_k != expected", format!("k {} model rows {}", k, want.len()));
        return false;
    }
    let lib = sk.verif_bit_matrix();
    if lib != want {
        ok = false;
        let bad: Vec<String> = lib
            .iter()
            .zip(want.iter())
            .enumerate()
            .filter(|(_, (a, b))| a != b)
            .take(3)
            .map(|(r, (a, b))| format!("row {} got {:016x} want {:016x}", r, a, b))
            .collect();
        fail(ctx, "bit matrix != model matrix", bad.join("; "));
    }
    let own = reconstruct(&st);
    if own != want {
        ok = false;
        let bad: Vec<String> = own
            .iter()
            .zip(want.iter())
            .enumerate()
            .filter(|(_, (a, b))| a != b)
            .take(3)
            .map(|(r, (a, b))| format!("row {} got {:016x} want {:016x}", r, a, b))
            .collect();
        fail(ctx, "matrix reconstructed from window+table != model matrix", format!("offset {} {}", st.window_offset, bad.join("; ")));
    }
    if !sk.validate() {
        ok = false;
        fail(ctx, "validate() is false", String::new());
    }
    if sk.is_empty() != (c == 0) {
        ok = false;
        fail(ctx, "is_empty disagrees with the model", format!("is_empty {}", sk.is_empty()));
    }
    let want_off = m::correct_offset(lg_k, c);
    if st.window_offset != want_off {
        ok = false;
        fail(ctx, "window offset != (8C-19K)/8K", format!("offset {} want {}", st.window_offset, want_off));
    }
    let fl = m::flavor(lg_k, c);
    let windowed = !st.sliding_window.is_empty();
    if (fl >= 2) != windowed || (windowed && st.sliding_window.len() != k) {
        ok = false;
        fail(ctx, "flavor does not match the coupon count", format!("flavor {} window len {}", fl, st.sliding_window.len()));
    }
    // the table holds exactly the surprising pairs, none inside the window, no duplicates
    let mut items = st.table_items.clone();
    items.sort_unstable();
    let dup = items.windows(2).any(|w| w[0] == w[1]);
    let mut bad_item = None;
    for &rc in &items {
        let col = (rc & 63) as u8;
        let row = (rc >> 6) as usize;
        if row >= k {
            bad_item = Some(rc);
            break;
        }
        let bit = want[row] >> col & 1 == 1;
        if windowed {
            if col >= st.window_offset && col < st.window_offset + 8 {
                bad_item = Some(rc);
                break;
            }
            if col < st.window_offset && bit {
                bad_item = Some(rc); // early zone entries are surprising zeros
                break;
            }
            if col >= st.window_offset + 8 && !bit {
                bad_item = Some(rc);
                break;
            }
        } else if !bit {
            bad_item = Some(rc);
            break;
        }
    }
    if dup || bad_item.is_some() || st.table_num_items as usize != items.len() {
        ok = false;
        fail(
            ctx,
            "surprising-value table inconsistent",
            format!("dup {} bad item {:?} counted {} present {}", dup, bad_item, st.table_num_items, items.len()),
        );
    }
    // the speed hint may never hide an unset bit
    if c > 0 {
        let min_trailing_ones = want.iter().map(|w| (!w).trailing_zeros()).min().unwrap_or(0);
        if st.first_interesting_column as u32 > min_trailing_ones {
            ok = false;
            fail(
                ctx,
                "first_interesting_column hides an unset bit",
                format!("fic {} but some row has an unset bit at column {}", st.first_interesting_column, min_trailing_ones),
            );
        }
    }
    if let Some((kxp, hip_acc, kxp_scale, hip_slack)) = hip {
        if !st.merge_flag {
            // two float evaluations of the same quantity: equal up to rounding at the scale KxP had
            // since its last exact refresh (see model::cpc::CpcModel::kxp_scale)
            if (st.kxp - kxp).abs() > m::KXP_ULP_ALLOWANCE * kxp_scale {
                ok = false;
                fail(ctx, "KxP != K - sum 2^-(col+1) over the coupons (with the every-8th-shift refresh)", format!("kxp {:e} want {:e}", st.kxp, kxp));
            }
            let hip_tol = 1e-9 * hip_acc.abs() + hip_slack;
            if (st.hip_est_accum - hip_acc).abs() > hip_tol || (sk.estimate() - hip_acc).abs() > hip_tol {
                ok = false;
                fail(ctx, "HIP accumulator != sum of K/KxP over novel coupons", format!("hip {} estimate {} want {}", st.hip_est_accum, sk.estimate(), hip_acc));
            }
        }
    }
    ctx.cover_max("max_table_lg_size", st.table_lg_size as f64);
    ctx.cover_max("max_table_items", items.len() as f64);
    ok
}

struct Trace {
    last_offset: u8,
    last_flavor: u8,
    last_table_lg: u8,
}

/// A sketch that came out of a union no longer maintains KxP / HIP (its estimate is ICON): those two recurrences are
/// compared only while the sketch has an unbroken history of its own (`own_history`).
fn observe_h(ctx: &mut Ctx, sk: &CpcSketch, model: &CpcModel, tr: &mut Trace, what: &str, own_history: bool) {
    let hip = if own_history { Some((model.kxp, model.hip, model.kxp_scale, model.hip_slack)) } else { None };
    check_cpc_state(ctx, sk, &model.matrix, hip, what);
    observe_rest(ctx, sk, model, tr);
}

/// The state must survive being written and read back, and being passed through a union, at this very coupon count
/// (the choice of the image form and of the union's path both depend on thresholds in C).
fn trial_copies(ctx: &mut Ctx, sk: &CpcSketch, model: &CpcModel, seed: u64, what: &str) -> (Option<CpcSketch>, Option<CpcSketch>) {
    let revived = match CpcSketch::deserialize_with_seed(&sk.serialize(), seed) {
        Ok(d) => {
            check_cpc_state(ctx, &d, &model.matrix, None, &format!("{} (after serialize/deserialize)", what));
            Some(d)
        }
        Err(e) => {
            ctx.violation("a sketch's own image does not deserialize", format!("{} lg_k={} C={}: {}", what, model.lg_k, model.num_coupons, e));
            None
        }
    };
    let mut u = CpcUnion::with_seed(model.lg_k, seed);
    u.update(sk);
    let r = u.to_sketch();
    check_cpc_state(ctx, &r, &model.matrix, None, &format!("{} (through a union)", what));
    ctx.cover("trial_round_trip_and_union");
    (revived, Some(r))
}

fn observe(ctx: &mut Ctx, sk: &CpcSketch, model: &CpcModel, tr: &mut Trace, what: &str) {
    check_cpc_state(ctx, sk, &model.matrix, Some((model.kxp, model.hip, model.kxp_scale, model.hip_slack)), what);
    observe_rest(ctx, sk, model, tr);
}

fn observe_rest(ctx: &mut Ctx, sk: &CpcSketch, model: &CpcModel, tr: &mut Trace) {
    let st_off = model.offset;
    if st_off != tr.last_offset {
        ctx.cover(&format!("offset_{:02}", st_off));
        tr.last_offset = st_off;
    }
    let fl = m::flavor(model.lg_k, model.num_coupons);
    if fl != tr.last_flavor {
        ctx.cover(&format!("flavor_{}", ["empty", "sparse", "hybrid", "pinned", "sliding"][fl as usize]));
        tr.last_flavor = fl;
    }
    let lg = sk.verif_state().table_lg_size;
    if lg > tr.last_table_lg && tr.last_table_lg != 0 {
        ctx.cover("table_growth");
    }
    if lg < tr.last_table_lg {
        ctx.cover("table_shrink");
    }
    tr.last_table_lg = lg;
}

/// Perturb a natural arrival order inside the stated envelope.
pub fn perturb(rng: &mut Rng, order: &mut Vec<u32>, lg_k: u8, plant: bool, delay: bool) {
    let k = 1usize << lg_k;
    let n = order.len();
    if n < 64 {
        return;
    }
    // move `m` elements drawn from [from_lo, from_hi] to random places in [to_lo, to_hi] (one pass, O(n + m log m))
    fn relocate(rng: &mut Rng, order: &mut Vec<u32>, m: usize, from: (usize, usize), to: (usize, usize)) {
        let n = order.len();
        let mut picked = std::collections::BTreeSet::new();
        for _ in 0..m {
            picked.insert(rng.usize(from.0, from.1.min(n - 1)));
        }
        let moved: Vec<u32> = picked.iter().map(|&i| order[i]).collect();
        let mut rest: Vec<u32> = Vec::with_capacity(n);
        for (i, &x) in order.iter().enumerate() {
            if !picked.contains(&i) {
                rest.push(x);
            }
        }
        let hi = to.1.min(rest.len());
        let lo = to.0.min(hi);
        let mut places: Vec<usize> = (0..moved.len()).map(|_| rng.usize(lo, hi)).collect();
        places.sort_unstable();
        let mut out: Vec<u32> = Vec::with_capacity(n);
        let mut pi = 0;
        for (i, &x) in rest.iter().enumerate() {
            while pi < places.len() && places[pi] == i {
                out.push(moved[pi]);
                pi += 1;
            }
            out.push(x);
        }
        while pi < places.len() {
            out.push(moved[pi]);
            pi += 1;
        }
        *order = out;
    }
    if plant {
        // surprising 1's long before the window arrives: take late, high-column coupons to the front
        let m = rng.usize(1, (k / 2).max(2));
        relocate(rng, order, m, (n / 2, n - 1), (0, n / 8));
    }
    if delay {
        // surprising 0's kept in the early zone until late: take early coupons to the back
        let m = rng.usize(1, (k / 2).max(2));
        relocate(rng, order, m, (0, n / 4), (n / 2, n - 1));
    }
}

fn hook_case(ctx: &mut Ctx, case: &Json) {
    let lg_k = case.u64("lg_k").unwrap_or(4) as u8;
    let mut rng = Rng::new(case.u64("seed").unwrap_or(0));
    let k = 1u64 << lg_k;
    let c_max = case.u64("c_max").unwrap_or(m::max_coupons_in_envelope(lg_k)).min(m::max_coupons_in_envelope(lg_k));
    let plant = case.bool("plant").unwrap_or(false);
    let delay = case.bool("delay").unwrap_or(false);
    let dups = case.bool("dups").unwrap_or(true);
    let stride = case.u64("stride").unwrap_or(if lg_k <= 8 { 1 } else { k / 16 }).max(1);
    let mut order = m::natural_order(&mut rng, lg_k, c_max);
    perturb(&mut rng, &mut order, lg_k, plant, delay);
    let mut sk = CpcSketch::new(lg_k);
    let mut model = CpcModel::new(lg_k);
    let mut tr = Trace { last_offset: 0, last_flavor: 0, last_table_lg: 0 };
    let mut own_history = true;
    observe(ctx, &sk, &model, &mut tr, "fresh");
    for (i, &rc) in order.iter().enumerate() {
        let before_off = model.offset;
        let before_fl = m::flavor(lg_k, model.num_coupons);
        let novel = model.offer(rc);
        sk.verif_row_col_update(rc);
        if dups && rng.chance(0.05) && i > 0 {
            // hammer duplicates of coupons already seen
            for _ in 0..rng.usize(1, 4) {
                let j = rng.usize(0, i);
                let d = order[j];
                model.offer(d);
                sk.verif_row_col_update(d);
                ctx.cover("duplicates_offered");
            }
        }
        let changed = model.offset != before_off || m::flavor(lg_k, model.num_coupons) != before_fl;
        if novel && (changed || (i as u64) % stride == 0) {
            observe_h(ctx, &sk, &model, &mut tr, &format!("hook op {} rc={:x}", i, rc), own_history);
        }
        if novel && (changed || rng.chance(2.0 / order.len().max(1) as f64)) && lg_k <= 12 {
            let (revived, merged) = trial_copies(ctx, &sk, &model, 9001, &format!("hook op {}", i));
            // now and then the history continues on the revived copy, or on the union's result
            match rng.below(8) {
                0 => {
                    if let Some(d) = revived {
                        sk = d;
                        ctx.cover("continued_on_revived_sketch");
                    }
                }
                1 => {
                    if let Some(r) = merged {
                        sk = r;
                        own_history = false;
                        ctx.cover("continued_on_union_result");
                    }
                }
                _ => {}
            }
        }
    }
    observe_h(ctx, &sk, &model, &mut tr, "end", own_history);
    ctx.cover_n("kxp_refreshes", model.refreshes as u64);
    ctx.cover(&format!("hook_lg_k_{}", lg_k));
    let mut fp = Fp::new();
    fp.u64(lg_k as u64);
    for w in model.matrix.iter().take(64) {
        fp.u64(*w);
    }
    fp.u64(model.num_coupons);
    ctx.end_case(fp.get(), model.num_coupons > 1);
}

fn public_case(ctx: &mut Ctx, case: &Json) {
    let lg_k = case.u64("lg_k").unwrap_or(4) as u8;
    let n = case.u64("n").unwrap_or(1000);
    let mut rng = Rng::new(case.u64("seed").unwrap_or(0));
    let mut seed = *rng.pick(&[9001u64, 0, 7, u64::MAX, 0x5555_5555]);
    if refhash::seed_hash(seed) == 0 {
        seed = 9001;
    }
    let k = 1u64 << lg_k;
    let stride = if lg_k <= 8 { 1 } else { (k / 16).max(1) };
    let mut sk = CpcSketch::with_seed(lg_k, seed);
    let mut model = CpcModel::new(lg_k);
    let mut tr = Trace { last_offset: 0, last_flavor: 0, last_table_lg: 0 };
    let salt = rng.next_u64();
    let domain = rng.range(n / 2 + 1, n * 2);
    let mut own_history = true;
    for i in 0..n {
        // checkpoint / restore with the configured seed: of the empty sketch, and now and then later on
        if (i == 0 && rng.chance(0.5)) || rng.chance(2.0 / n.max(1) as f64) {
            let (revived, merged) = trial_copies(ctx, &sk, &model, seed, &format!("public op {} seed {}", i, seed));
            if rng.chance(0.8) {
                if let Some(d) = revived {
                    sk = d;
                    ctx.cover("continued_on_revived_sketch");
                }
            } else if let Some(r) = merged {
                sk = r;
                own_history = false;
                ctx.cover("continued_on_union_result");
            }
        }
        let x = rng.below(domain);
        let rc = match rng.below(5) {
            0 => {
                let item = (salt, x);
                sk.update(item);
                m::row_col_of_bytes(&rt::hashed_bytes(&item), seed, lg_k)
            }
            1 => {
                let item = format!("{}-{}", salt % 997, x);
                sk.update(item.as_str());
                m::row_col_of_bytes(&rt::hashed_bytes(&item.as_str()), seed, lg_k)
            }
            2 => {
                let v = x as f64 / 8.0 - 1.0;
                sk.update_f64(v);
                let bits = if v == 0.0 { 0u64 } else { v.to_bits() };
                m::row_col_of_bytes(&rt::hashed_bytes(&bits), seed, lg_k)
            }
            3 => {
                let v = rt::special_f64(&mut rng);
                sk.update_f64(v);
                m::row_col_of_bytes(&rt::hashed_bytes(&rt::canonical_f64_bits(v)), seed, lg_k)
            }
            _ => {
                let v = rt::special_f32(&mut rng);
                sk.update_f32(v);
                m::row_col_of_bytes(&rt::hashed_bytes(&rt::canonical_f64_bits(v as f64)), seed, lg_k)
            }
        };
        let before_off = model.offset;
        let before_fl = m::flavor(lg_k, model.num_coupons);
        let novel = model.offer(rc);
        let changed = model.offset != before_off || m::flavor(lg_k, model.num_coupons) != before_fl;
        if novel && (changed || i % stride == 0) {
            observe_h(ctx, &sk, &model, &mut tr, &format!("public op {} seed {}", i, seed), own_history);
        }
    }
    observe_h(ctx, &sk, &model, &mut tr, "public end", own_history);
    ctx.cover(&format!("public_lg_k_{}", lg_k));
    let mut fp = Fp::new();
    fp.u64(lg_k as u64);
    for w in model.matrix.iter().take(64) {
        fp.u64(*w);
    }
    fp.u64(model.num_coupons);
    ctx.end_case(fp.get(), model.num_coupons > 1);
}

pub fn run_case(ctx: &mut Ctx, case: &Json) {
    ctx.begin_case(case.clone());
    let r = rt::guard(|| match case.str("lane") {
        Some("hook") => hook_case(ctx, case),
        Some("public") => public_case(ctx, case),
        other => ctx.inconclusive(format!("C05: unknown lane {:?}", other)),
    });
    if let Err(p) = r {
        ctx.panic_violation("CpcSketch", &p);
    }
}

pub fn run(ctx: &mut Ctx) {
    ctx.note(
        "rule",
        Json::Str(
            "hook lane: one case = the complete natural arrival order of novel (row,col) coupons of a k x 64 matrix \
             (exponential arrival times, i.e. the law of a hashed stream) up to window offset 56, optionally perturbed \
             inside the stated envelope (<= k/2 surprising ones planted early, <= k/2 surprising zeros delayed, \
             duplicates), injected through the hook; public lane: hashed items. Matrix, own reconstruction, validate, \
             offset, flavor, table, first_interesting_column, KxP and HIP compared after every novel coupon for lg_k<=8 \
             and at every flavor/offset change plus checkpoints above. distinct = fingerprint of final matrix; \
             non-trivial = more than one coupon"
                .into(),
        ),
    );
    let reps = ctx.tier_pick(6u64, 160);
    let mut idx = 0u64;
    for lg_k in 4..=12u8 {
        for variant in 0..4u64 {
            for rep in 0..reps {
                idx += 1;
                // every shard runs the small configurations; big ones are spread over the shards
                if lg_k >= 9 && idx % ctx.nshards as u64 != ctx.shard as u64 {
                    continue;
                }
                if ctx.quick() && lg_k >= 11 && variant >= 2 && rep > 0 {
                    continue;
                }
                let case = Json::obj()
                    .set("lane", "hook")
                    .set("lg_k", lg_k)
                    .set("plant", variant & 1 == 1)
                    .set("delay", variant & 2 == 2)
                    .set("seed", ctx.case_seed(&format!("hook{}v{}", lg_k, variant), rep));
                run_case(ctx, &case);
                if lg_k == 6 && variant == 3 && rep == 0 {
                    ctx.sample(case);
                }
            }
        }
        let n_pub = ctx.tier_pick(2u64, 20);
        for rep in 0..n_pub {
            let k = 1u64 << lg_k;
            let case = Json::obj()
                .set("lane", "public")
                .set("lg_k", lg_k)
                .set("n", (k * 12).min(ctx.tier_pick(30_000, 400_000)))
                .set("seed", ctx.case_seed(&format!("public{}", lg_k), rep));
            run_case(ctx, &case);
            if lg_k == 5 && rep == 0 {
                ctx.sample(case);
            }
        }
    }
    // larger k (one configuration per shard): row indices beyond 16 bits, tables beyond 2^16 entries, the first
    // window moves; a hook lane to C = 4.5 K and a public lane in the sparse phase
    let top = ctx.tier_pick(17u8, 22);
    for lg_k in 13..=top {
        if (lg_k as usize) % ctx.nshards != ctx.shard {
            continue;
        }
        let k = 1u64 << lg_k;
        let case = Json::obj()
            .set("lane", "hook")
            .set("lg_k", lg_k)
            .set("c_max", k * 9 / 2)
            .set("stride", k / 2)
            .set("plant", lg_k % 2 == 0)
            .set("seed", ctx.case_seed("hookmid", lg_k as u64));
        run_case(ctx, &case);
        let case = Json::obj().set("lane", "public").set("lg_k", lg_k).set("n", (k / 16).min(40_000)).set("seed", ctx.case_seed("publicmid", lg_k as u64));
        run_case(ctx, &case);
    }
    if !ctx.quick() {
        // big-k spot checks: lg_k 21 up to a few window moves
        if ctx.shard == 1 % ctx.nshards {
            let lg_k = 21u8;
            let k = 1u64 << lg_k;
            let case = Json::obj()
                .set("lane", "hook")
                .set("lg_k", lg_k)
                .set("c_max", k * 5)
                .set("dups", false)
                .set("stride", k)
                .set("seed", ctx.case_seed("hookbig", 21));
            run_case(ctx, &case);
        }
        if ctx.shard == 2 % ctx.nshards {
            let lg_k = 16u8;
            let k = 1u64 << lg_k;
            let case = Json::obj()
                .set("lane", "hook")
                .set("lg_k", lg_k)
                .set("c_max", k * 20)
                .set("stride", k / 4)
                .set("plant", true)
                .set("delay", true)
                .set("seed", ctx.case_seed("hookbig", 16));
            run_case(ctx, &case);
        }
    }
}

pub fn replay(ctx: &mut Ctx, case: &Json) {
    run_case(ctx, case);
}
