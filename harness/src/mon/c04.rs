//! C04 — a theta sketch retains exactly the distinct hashes below theta (KMV invariant).

use std::collections::{BTreeSet, HashSet};

use datasketches::common::ResizeFactor;
use datasketches::theta::ThetaSketch;

use crate::refhash;
use crate::rt::{self, rel_close, Ctx, Fp, Json, Rng};

pub const MAX_THETA: u64 = i64::MAX as u64;
pub const RFS: [ResizeFactor; 4] = [ResizeFactor::X1, ResizeFactor::X2, ResizeFactor::X4, ResizeFactor::X8];

pub fn theta_init(p: f32) -> u64 {
    if p < 1.0 {
        (MAX_THETA as f64 * p as f64) as u64
    } else {
        MAX_THETA
    }
}

/// The KMV model: hashes offered since the last reset that are below the current theta, the
/// number of distinct hashes that ever qualified, and the last theta observed.
pub struct ThetaModel {
    pub lg_k: u8,
    pub theta_init: u64,
    pub theta: u64,
    pub below: BTreeSet<u64>,
    pub qualified: HashSet<u64>,
    pub any_update: bool,
}

impl ThetaModel {
    pub fn new(lg_k: u8, p: f32) -> ThetaModel {
        let t = theta_init(p);
        ThetaModel { lg_k, theta_init: t, theta: t, below: BTreeSet::new(), qualified: HashSet::new(), any_update: false }
    }
    pub fn offer(&mut self, h: u64) {
        self.any_update = true;
        if h != 0 && h < self.theta_init {
            self.qualified.insert(h);
        }
        if h != 0 && h < self.theta {
            self.below.insert(h);
        }
    }
    pub fn reset(&mut self) {
        self.theta = self.theta_init;
        self.below.clear();
        self.qualified.clear();
        self.any_update = false;
    }
}

struct Run<'a> {
    sk: ThetaSketch,
    model: ThetaModel,
    lg_k: u8,
    full_every: usize,
    ops: usize,
    ctx: &'a mut Ctx,
    tag: String,
}

impl<'a> Run<'a> {
    /// cheap checks after every operation; full set comparison when `full`
    fn after_op(&mut self, what: &str, mut full: bool) {
        self.ops += 1;
        let theta = self.sk.theta64();
        self.ctx.evals(1);
        if theta > self.model.theta {
            self.ctx.violation(
                "theta increased",
                format!("{} {}: theta {} -> {}", self.tag, what, self.model.theta, theta),
            );
        }
        if theta != self.model.theta {
            full = true;
            self.ctx.cover("theta_lowered");
            self.model.theta = theta;
            let keep: BTreeSet<u64> = self.model.below.range(..theta).copied().collect();
            self.model.below = keep;
        }
        let k = 1usize << self.lg_k;
        if theta < self.model.theta_init && self.model.qualified.len() <= k {
            self.ctx.violation(
                "theta below its initial value although at most k distinct hashes qualified",
                format!("{} {}: theta {} init {} qualified {} k {}", self.tag, what, theta, self.model.theta_init, self.model.qualified.len(), k),
            );
        }
        let n = self.sk.num_retained();
        if n != self.model.below.len() {
            full = true;
        }
        if n > (15 * 2 * k) / 16 {
            self.ctx.violation(
                "retained entries exceed 15/16 of 2k",
                format!("{} {}: retained {} k {}", self.tag, what, n, k),
            );
        }
        // estimate, modes
        let est = self.sk.estimate();
        let want_est = if self.model.below.is_empty() && !self.expect_nonempty() {
            0.0
        } else {
            self.model.below.len() as f64 / (theta as f64 / MAX_THETA as f64)
        };
        let est_ok = if theta == MAX_THETA {
            est == self.model.below.len() as f64
        } else if self.model.below.is_empty() {
            est == 0.0
        } else {
            rel_close(est, want_est, 1e-12)
        };
        if !est_ok {
            self.ctx.violation(
                "estimate != retained/theta",
                format!("{} {}: estimate {} retained(model) {} theta {}", self.tag, what, est, self.model.below.len(), theta),
            );
        }
        if self.sk.is_estimation_mode() != (theta < MAX_THETA) {
            self.ctx.violation("is_estimation_mode != (theta < 1.0)", format!("{} {}", self.tag, what));
        }
        if !rel_close(self.sk.theta(), theta as f64 / MAX_THETA as f64, 1e-15) {
            self.ctx.violation("theta() != theta64()/MAX", format!("{} {}", self.tag, what));
        }
        // emptiness: never-updated / freshly reset => empty; any retained entry => not empty
        let e = self.sk.is_empty();
        if !self.model.any_update && !e {
            self.ctx.violation("fresh or reset sketch is not empty", format!("{} {}", self.tag, what));
        }
        if !self.model.below.is_empty() && e {
            self.ctx.violation("sketch with retained entries reports empty", format!("{} {}", self.tag, what));
        }
        if full || self.ops % self.full_every == 0 {
            self.full_compare(what);
        }
    }

    fn expect_nonempty(&self) -> bool {
        !self.model.below.is_empty()
    }

    fn full_compare(&mut self, what: &str) {
        self.ctx.evals(1);
        self.ctx.cover("full_set_comparisons");
        let mut got: Vec<u64> = self.sk.iter().collect();
        let n_iter = got.len();
        got.sort_unstable();
        let dup = got.windows(2).any(|w| w[0] == w[1]);
        let want: Vec<u64> = self.model.below.iter().copied().collect();
        if dup || got != want || self.sk.num_retained() != want.len() || n_iter != want.len() {
            let missing: Vec<u64> = want.iter().copied().filter(|h| got.binary_search(h).is_err()).take(3).collect();
            let extra: Vec<u64> = got.iter().copied().filter(|h| want.binary_search(h).is_err()).take(3).collect();
            self.ctx.violation(
                "retained entries != distinct offered hashes below theta",
                format!(
                    "{} {}: iter {} entries (dup={}), num_retained {}, model {}; theta {}; missing {:x?} extra {:x?}",
                    self.tag,
                    what,
                    n_iter,
                    dup,
                    self.sk.num_retained(),
                    want.len(),
                    self.sk.theta64(),
                    missing,
                    extra
                ),
            );
        }
    }

    fn check_compact(&mut self, ordered: bool, what: &str) {
        let c = self.sk.compact(ordered);
        self.ctx.evals(1);
        self.ctx.cover(if ordered { "compact_ordered" } else { "compact_unordered" });
        let got_order: Vec<u64> = c.iter().collect();
        let mut got = got_order.clone();
        got.sort_unstable();
        let want: Vec<u64> = self.model.below.iter().copied().collect();
        let mut problems = vec![];
        if got != want || c.num_retained() != want.len() {
            problems.push(format!("entries differ: compact {} model {}", got.len(), want.len()));
        }
        if c.is_empty() != self.sk.is_empty() {
            problems.push(format!("emptiness: compact {} sketch {}", c.is_empty(), self.sk.is_empty()));
        }
        if !rel_close(c.estimate(), self.sk.estimate(), 1e-12) {
            problems.push(format!("estimate: compact {} sketch {}", c.estimate(), self.sk.estimate()));
        }
        if !self.sk.is_empty() && c.theta64() != self.sk.theta64() {
            problems.push(format!("theta: compact {} sketch {}", c.theta64(), self.sk.theta64()));
        }
        if ordered && !c.is_ordered() {
            problems.push("compact(true) is not reported ordered".into());
        }
        if c.is_ordered() && got_order.windows(2).any(|w| w[0] >= w[1]) {
            problems.push("reported ordered but entries are not strictly ascending".into());
        }
        if !problems.is_empty() {
            self.ctx.violation(
                "compact() does not describe the same set",
                format!("{} {} compact({}): {}", self.tag, what, ordered, problems.join("; ")),
            );
        }
    }
}

fn theta_case(ctx: &mut Ctx, case: &Json) {
    let lg_k = case.u64("lg_k").unwrap_or(5) as u8;
    let rf = RFS[case.u64("rf").unwrap_or(3) as usize % 4];
    let p = case.f64("p").unwrap_or(1.0) as f32;
    let n_ops = case.u64("n_ops").unwrap_or(2000) as usize;
    let lane = case.str("lane").unwrap_or("public").to_string();
    let mut rng = Rng::new(case.u64("seed").unwrap_or(0));
    let mut hseed = *rng.pick(&[9001u64, 0, 1, 0xdead_beef, u64::MAX]);
    if refhash::seed_hash(hseed) == 0 {
        hseed = 9001;
    }
    let k = 1usize << lg_k;
    let sk = ThetaSketch::builder().lg_k(lg_k).resize_factor(rf).sampling_probability(p).seed(hseed).build();
    let tag = format!("lg_k={} rf=X{} p={} seed={} lane={}", lg_k, rf.value(), p, hseed, lane);
    let full_every = if lg_k <= 7 { 1 } else { 61 };
    let model = ThetaModel::new(lg_k, p);
    let mut run = Run { sk, model, lg_k, full_every, ops: 0, ctx, tag };
    run.after_op("fresh", true);
    run.check_compact(rng.chance(0.5), "fresh");
    let salt = rng.next_u64();
    // adversarial lane: a family of hashes that share index bits and stride bits in every table size
    let lg_max = lg_k + 1;
    let common_low = rng.next_u64() & ((1u64 << (lg_max + 7)) - 1);
    let domain = (n_ops as u64).max(4);
    let mut recent: Vec<u64> = vec![];
    let mut i = 0usize;
    while i < n_ops {
        i += 1;
        // about 6 trims, 1.2 resets and 12 compacts per history, whatever its length
        let r = rng.below(1000 * (n_ops as u64 / 1000).max(1));
        if r < 6 {
            let before = run.model.below.len();
            run.sk.trim();
            // after trim the smallest min(k, before) entries remain (theta is re-read in after_op)
            run.after_op("trim", true);
            let want = before.min(k);
            if run.sk.num_retained() != want {
                let msg = format!("{}: before {} after {} k {}", run.tag, before, run.sk.num_retained(), k);
                run.ctx.violation("trim() does not leave min(k, retained) entries", msg);
            }
            run.ctx.cover(if before > k { "trim_effective" } else { "trim_noop" });
            continue;
        }
        if r < 7 || (r < 9 && rng.chance(0.1)) {
            run.sk.reset();
            run.model.reset();
            run.after_op("reset", true);
            let ok = run.sk.is_empty() && run.sk.theta64() == run.model.theta_init && run.sk.estimate() == 0.0 && run.sk.num_retained() == 0;
            if !ok {
                let msg = format!("{}: empty {} theta {} estimate {}", run.tag, run.sk.is_empty(), run.sk.theta64(), run.sk.estimate());
                run.ctx.violation("reset() does not restore the initial state", msg);
            }
            run.ctx.cover("reset");
            continue;
        }
        if r < 20 {
            let o = rng.chance(0.5);
            run.check_compact(o, &format!("op {}", i));
            continue;
        }
        // an update
        let h = if lane == "public" {
            let x = rng.below(domain);
            let (h, what) = match rng.below(5) {
                0 => {
                    let item = (salt, x);
                    run.sk.update(item);
                    (refhash::murmur3_x64_128(&rt::hashed_bytes(&item), hseed).0 >> 1, "update(tuple)")
                }
                1 => {
                    let item = format!("k{}:{}", salt & 0xff, x);
                    run.sk.update(item.as_str());
                    (refhash::murmur3_x64_128(&rt::hashed_bytes(&item.as_str()), hseed).0 >> 1, "update(str)")
                }
                2 => {
                    let v = (x as f64) * 0.5 - 3.0;
                    run.sk.update_f64(v);
                    // canonical double: +0.0 for both zeros; hashed as the u64 bit pattern
                    let bits = if v == 0.0 { 0u64 } else { v.to_bits() };
                    (refhash::murmur3_x64_128(&rt::hashed_bytes(&bits), hseed).0 >> 1, "update_f64")
                }
                3 => {
                    // both zeros, every NaN, infinities, subnormals: one canonical bit pattern each
                    let v = rt::special_f64(&mut rng);
                    run.sk.update_f64(v);
                    (refhash::murmur3_x64_128(&rt::hashed_bytes(&rt::canonical_f64_bits(v)), hseed).0 >> 1, "update_f64(special)")
                }
                _ => {
                    // a single is the double it widens to
                    let v = rt::special_f32(&mut rng);
                    run.sk.update_f32(v);
                    (refhash::murmur3_x64_128(&rt::hashed_bytes(&rt::canonical_f64_bits(v as f64)), hseed).0 >> 1, "update_f32")
                }
            };
            run.model.offer(h);
            run.after_op(what, false);
            h
        } else {
            let theta = run.sk.theta64();
            let h = match rng.below(20) {
                0 => theta.wrapping_sub(1),
                1 => theta,
                2 => theta.saturating_add(1),
                3 => 1,
                4 => MAX_THETA - 1,
                5 => MAX_THETA,
                6 => 0,
                7 | 8 if !recent.is_empty() => *rng.pick(&recent), // duplicates
                9..=14 => {
                    // colliding family: same index and stride in every table size, distinct high bits
                    let hi = rng.next_u64() >> (lg_max + 7 + 1);
                    ((hi << (lg_max + 7)) | common_low) & MAX_THETA
                }
                15 => {
                    // same low index bits, random stride
                    (rng.next_u64() & MAX_THETA & !((1u64 << lg_max) - 1)) | (common_low & ((1u64 << lg_max) - 1))
                }
                _ => rng.next_u64() >> 1,
            };
            run.sk.verif_insert_hash(h);
            run.model.offer(h);
            run.after_op("insert_hash", false);
            h
        };
        if recent.len() < 64 {
            recent.push(h);
        } else {
            let j = rng.usize(0, 63);
            recent[j] = h;
        }
    }
    run.full_compare("end");
    run.check_compact(true, "end");
    run.check_compact(false, "end");
    let est_mode = run.sk.is_estimation_mode();
    let mut fp = Fp::new();
    fp.u64(lg_k as u64);
    fp.u64(run.sk.theta64());
    fp.u64(run.model.below.len() as u64);
    for h in run.model.below.iter().take(16) {
        fp.u64(*h);
    }
    let nontrivial = run.model.qualified.len() > 0;
    let ctx = run.ctx;
    ctx.cover(&format!("{}_lg_k_{}", lane, lg_k));
    ctx.cover(&format!("rf_X{}", rf.value()));
    if est_mode && p >= 1.0 {
        ctx.cover("reached_estimation_mode_by_rebuild");
    }
    ctx.end_case(fp.get(), nontrivial);
}

pub fn run_case(ctx: &mut Ctx, case: &Json) {
    ctx.begin_case(case.clone());
    let r = rt::guard(|| theta_case(ctx, case));
    if let Err(p) = r {
        ctx.panic_violation("ThetaSketch", &p);
    }
}

pub fn run(ctx: &mut Ctx) {
    ctx.note(
        "rule",
        Json::Str(
            "one case = one history over update / insert_hash (adversarial hashes: probe-colliding families, theta+-1, 0, \
             1, MAX-1, duplicates) / trim / reset / compact on a sketch with given lg_k, resize factor, sampling p and \
             seed; cheap invariants after every operation, full entry-set comparison after every operation for lg_k<=7 \
             and whenever theta or the count moves otherwise. distinct = fingerprint of (lg_k, final theta, final \
             entries); non-trivial = at least one hash qualified"
                .into(),
        ),
    );
    let ps: [f64; 6] = [1.0, 0.9, 0.5, 0.1, 0.01, 1e-4];
    let n_cases = ctx.tier_pick(500u64, 2000);
    let max_ops = ctx.tier_pick(20_000u64, 150_000);
    // larger nominal sizes, one per shard: enough operations for a few rebuilds (table indices beyond 16 bits)
    {
        // (the adversarial lane makes whole probe sequences collide: its cost grows with the square of the table, so
        // the large tables get the public lane and a bounded number of operations)
        let lg_k = if ctx.quick() { 13 + (ctx.shard % 3) as u64 } else { 13 + (ctx.shard % 6) as u64 };
        let case = Json::obj()
            .set("lane", if ctx.shard % 2 == 0 || lg_k >= 16 { "public" } else { "adversarial" })
            .set("lg_k", lg_k)
            .set("rf", (ctx.shard / 4) as u64 % 4)
            .set("p", if ctx.shard % 3 == 2 { 0.5 } else { 1.0 })
            .set("n_ops", ((1u64 << lg_k) * ctx.tier_pick(5, 4)).min(600_000))
            .set("seed", ctx.case_seed("theta-big", lg_k));
        run_case(ctx, &case);
    }
    let mut rng = ctx.rng("cases");
    for i in 0..n_cases {
        let lg_k = if !ctx.quick() && rng.chance(0.03) { rng.range(13, 16) } else { rng.range(5, 12) };
        let k = 1u64 << lg_k;
        let p = *rng.pick(&ps);
        // enough operations to go through several rebuilds when p = 1
        let n_ops = ((k as f64 * rng.range(2, 10) as f64 / p.max(0.05)) as u64).clamp(50, max_ops);
        let lane = if rng.chance(0.5) { "public" } else { "adversarial" };
        let case = Json::obj()
            .set("lane", lane)
            .set("lg_k", lg_k)
            .set("rf", rng.below(4))
            .set("p", p)
            .set("n_ops", n_ops)
            .set("seed", ctx.case_seed("theta", i));
        run_case(ctx, &case);
        if i < 2 {
            ctx.sample(case);
        }
    }
}

pub fn replay(ctx: &mut Ctx, case: &Json) {
    run_case(ctx, case);
}
