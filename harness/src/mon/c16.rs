//! C16 — hashes are bit-exact MurmurHash3 / XXH64 and independent of write chunking.
//!
//! Lanes:
//!  * digest   : (bytes, seed, chunking) -> library digest == reference one-shot digest
//!  * hashimpl : items hashed through std::hash::Hash -> library digest == reference of the bytes
//!               recorded from the same Hash impl
//!  * derived  : HLL coupon, theta hash, CPC row/col, Count-Min bucket, Bloom positions, seed hash
//!               observed through the public API / hooks == reference derivations

use std::hash::Hash;

use datasketches::bloom::BloomFilterBuilder;
use datasketches::countmin::CountMinSketch;
use datasketches::cpc::CpcSketch;
use datasketches::hll::{HllSketch, HllType};
use datasketches::theta::ThetaSketch;
use datasketches::verif;

use crate::refhash;
use crate::rt::{self, json::hex, Ctx, Fp, Json, Rng};

const SEEDS: [u64; 8] = [0, 1, 9001, 1 << 32, 1 << 63, u64::MAX, 0x1234_5678_9abc_def0, 0xffff_ffff];

fn content(len: usize, pattern: u64, rng: &mut Rng) -> Vec<u8> {
    match pattern {
        0 => rng.bytes(len),
        1 => vec![0u8; len],
        2 => vec![0xffu8; len],
        3 => {
            let mut v = vec![0u8; len];
            if len > 0 {
                let bit = rng.below(len as u64 * 8);
                v[(bit / 8) as usize] |= 1 << (bit % 8);
            }
            v
        }
        _ => {
            // low-entropy text-like
            (0..len).map(|i| b'a' + ((i as u64 * 7 + pattern) % 26) as u8).collect()
        }
    }
}

fn split<'a>(data: &'a [u8], cuts: &[usize]) -> Vec<&'a [u8]> {
    // cuts: sorted positions in 0..=len (may repeat => empty chunks)
    let mut out = vec![];
    let mut prev = 0;
    for &c in cuts {
        out.push(&data[prev..c]);
        prev = c;
    }
    out.push(&data[prev..]);
    out
}

fn check_digest(ctx: &mut Ctx, data: &[u8], seed: u64, chunks: &[&[u8]], m_ref: (u64, u64), x_ref: u64) {
    let m = verif::murmur3_x64_128(seed, chunks);
    ctx.evals(1);
    if m != m_ref {
        let lens: Vec<usize> = chunks.iter().map(|c| c.len()).collect();
        ctx.violation(
            "murmur3 digest != reference",
            format!(
                "data={} seed={} chunk_lens={:?} lib=({:016x},{:016x}) ref=({:016x},{:016x})",
                hex(data),
                seed,
                lens,
                m.0,
                m.1,
                m_ref.0,
                m_ref.1
            ),
        );
    }
    let x = verif::xxhash64(seed, chunks);
    ctx.evals(1);
    if x != x_ref {
        let lens: Vec<usize> = chunks.iter().map(|c| c.len()).collect();
        ctx.violation(
            "xxhash64 digest != reference",
            format!("data={} seed={} chunk_lens={:?} lib={:016x} ref={:016x}", hex(data), seed, lens, x, x_ref),
        );
    }
}

fn digest_case(ctx: &mut Ctx, case: &Json) {
    let len = case.u64("len").unwrap_or(0) as usize;
    let pattern = case.u64("pattern").unwrap_or(0);
    let cseed = case.u64("seed").unwrap_or(0);
    let n_random = case.u64("n_random").unwrap_or(60) as usize;
    let mut rng = Rng::new(cseed);
    let data = content(len, pattern, &mut rng);
    let mut fp = Fp::new();
    fp.bytes(&data);
    let mut seeds: Vec<u64> = SEEDS.to_vec();
    seeds.push(rng.next_u64());
    seeds.push(rng.next_u64() >> 40);
    for &seed in &seeds {
        let m_ref = refhash::murmur3_x64_128(&data, seed);
        let x_ref = refhash::xxh64(&data, seed);
        // one-shot
        check_digest(ctx, &data, seed, &[&data[..]], m_ref, x_ref);
        // byte-at-a-time
        let singles: Vec<&[u8]> = data.chunks(1).collect();
        check_digest(ctx, &data, seed, &singles, m_ref, x_ref);
        if len >= 1 && len <= 12 {
            // exhaustive: every subset of the len-1 interior cut points
            let n = len - 1;
            for mask in 0u32..(1u32 << n) {
                let cuts: Vec<usize> = (0..n).filter(|i| mask >> i & 1 == 1).map(|i| i + 1).collect();
                let chunks = split(&data, &cuts);
                check_digest(ctx, &data, seed, &chunks, m_ref, x_ref);
            }
            ctx.cover_n("chunkings_exhaustive", 1u64 << n);
            // with empty chunks sprinkled in (a separate pass)
            for _ in 0..8 {
                let ncuts = rng.usize(1, 6);
                let mut cuts: Vec<usize> = (0..ncuts).map(|_| rng.usize(0, len)).collect();
                let dup = *rng.pick(&cuts);
                cuts.push(dup);
                cuts.push(0);
                cuts.push(len);
                cuts.sort_unstable();
                let chunks = split(&data, &cuts);
                check_digest(ctx, &data, seed, &chunks, m_ref, x_ref);
                ctx.cover("chunkings_with_empty_chunks");
            }
        } else if len > 12 {
            for r in 0..n_random {
                // different regimes: few big chunks, many small, aligned +/- 1 around 16/32
                let cuts: Vec<usize> = match r % 4 {
                    0 => {
                        let k = rng.usize(1, 4);
                        let mut c: Vec<usize> = (0..k).map(|_| rng.usize(0, len)).collect();
                        c.sort_unstable();
                        c
                    }
                    1 => {
                        let mut c = vec![];
                        let mut p = 0;
                        loop {
                            p += rng.usize(0, 5);
                            if p >= len {
                                break;
                            }
                            c.push(p);
                        }
                        c
                    }
                    2 => {
                        let mut c = vec![];
                        let mut p = 0usize;
                        loop {
                            let step = *rng.pick(&[15usize, 16, 17, 31, 32, 33, 1, 7, 8, 9]);
                            p += step;
                            if p >= len {
                                break;
                            }
                            c.push(p);
                        }
                        c
                    }
                    _ => {
                        let k = rng.usize(1, 24);
                        let mut c: Vec<usize> = (0..k).map(|_| rng.usize(0, len)).collect();
                        c.sort_unstable();
                        c
                    }
                };
                let chunks = split(&data, &cuts);
                check_digest(ctx, &data, seed, &chunks, m_ref, x_ref);
            }
            ctx.cover_n("chunkings_random", n_random as u64);
        }
    }
    ctx.cover(&format!("len_mod16_{}", len % 16));
    ctx.cover(&format!("len_mod32_{}", len % 32));
    ctx.end_case(fp.get(), len > 0);
}

// ------------------------------------------------------------------------------------------------

fn concat(chunks: &[Vec<u8>]) -> Vec<u8> {
    let mut v = vec![];
    for c in chunks {
        v.extend_from_slice(c);
    }
    v
}

/// All derived quantities for one item of any hashable type.
/// An item whose `Hash` impl issues an arbitrary sequence of *typed* writes (`write_u8` .. `write_u128`,
/// `write_usize`, the signed ones, and byte slices): a hasher may override any of them, and each override has its
/// own way of meeting a block boundary.
#[derive(Clone, Debug)]
pub enum TypedWrite {
    U8(u8),
    U16(u16),
    U32(u32),
    U64(u64),
    U128(u128),
    Usize(usize),
    I8(i8),
    I16(i16),
    I32(i32),
    I64(i64),
    I128(i128),
    Isize(isize),
    Bytes(Vec<u8>),
}

#[derive(Clone, Debug)]
pub struct TypedSeq(pub Vec<TypedWrite>);

impl Hash for TypedSeq {
    fn hash<H: std::hash::Hasher>(&self, state: &mut H) {
        for w in &self.0 {
            match w {
                TypedWrite::U8(x) => state.write_u8(*x),
                TypedWrite::U16(x) => state.write_u16(*x),
                TypedWrite::U32(x) => state.write_u32(*x),
                TypedWrite::U64(x) => state.write_u64(*x),
                TypedWrite::U128(x) => state.write_u128(*x),
                TypedWrite::Usize(x) => state.write_usize(*x),
                TypedWrite::I8(x) => state.write_i8(*x),
                TypedWrite::I16(x) => state.write_i16(*x),
                TypedWrite::I32(x) => state.write_i32(*x),
                TypedWrite::I64(x) => state.write_i64(*x),
                TypedWrite::I128(x) => state.write_i128(*x),
                TypedWrite::Isize(x) => state.write_isize(*x),
                TypedWrite::Bytes(b) => state.write(b),
            }
        }
    }
}

fn gen_typed_seq(rng: &mut Rng) -> TypedSeq {
    let one = |rng: &mut Rng| -> TypedWrite {
        let v = rng.next_u64();
        match rng.below(13) {
            0 => TypedWrite::U8(v as u8),
            1 => TypedWrite::U16(v as u16),
            2 => TypedWrite::U32(v as u32),
            3 => TypedWrite::U64(v),
            4 => TypedWrite::U128(((v as u128) << 64) | rng.next_u64() as u128),
            5 => TypedWrite::Usize(v as usize),
            6 => TypedWrite::I8(v as i8),
            7 => TypedWrite::I16(v as i16),
            8 => TypedWrite::I32(v as i32),
            9 => TypedWrite::I64(v as i64),
            10 => TypedWrite::I128((((v as u128) << 64) | rng.next_u64() as u128) as i128),
            11 => TypedWrite::Isize(v as isize),
            _ => {
                let n = rng.usize(0, 20);
                TypedWrite::Bytes(rng.bytes(n))
            }
        }
    };
    // half of the sequences are homogeneous runs that end exactly on a 16- or 32-byte boundary
    if rng.chance(0.5) {
        let total = *rng.pick(&[16usize, 32, 48, 64]);
        let (w, mk): (usize, fn(u64) -> TypedWrite) = match rng.below(5) {
            0 => (1, |v| TypedWrite::U8(v as u8)),
            1 => (2, |v| TypedWrite::I16(v as i16)),
            2 => (4, |v| TypedWrite::U32(v as u32)),
            3 => (8, |v| TypedWrite::I64(v as i64)),
            _ => (16, |v| TypedWrite::U128(v as u128 * 0x1_0000_0001_0000_0001)),
        };
        let mut ops: Vec<TypedWrite> = vec![];
        // a mixed-width head, then the run, so that the last write lands on the boundary
        let head = if rng.chance(0.5) { vec![TypedWrite::U64(rng.next_u64())] } else { vec![] };
        let head_len = head.len() * 8;
        ops.extend(head);
        let mut len = head_len;
        while len + w <= total {
            ops.push(mk(rng.next_u64()));
            len += w;
        }
        return TypedSeq(ops);
    }
    let n = rng.usize(1, 10);
    TypedSeq((0..n).map(|_| one(rng)).collect())
}

fn derived_for_item<T: Hash + Clone>(ctx: &mut Ctx, item: T, label: &str, rng: &mut Rng) {
    let chunks = rt::hashed_chunks(&item);
    let bytes = concat(&chunks);
    ctx.cover(&format!("item_type_{}", label));
    ctx.cover_max("max_item_bytes", bytes.len() as f64);
    let desc = || format!("type={} hashed_bytes={}", label, hex(&bytes));

    // the Hash impl's natural chunking through the crate hasher
    for &seed in &[9001u64, 0, u64::MAX, rng.next_u64()] {
        let lib = verif::murmur3_of(seed, item.clone());
        let r = refhash::murmur3_x64_128(&bytes, seed);
        ctx.check(lib == r, "murmur3 of Hash item != reference of recorded bytes", || {
            format!("{} seed={} lib={:x?} ref={:x?}", desc(), seed, lib, r)
        });
    }

    // HLL coupon (seed 9001), observed in list mode through the hook and through serialize()
    {
        let (h1, h2) = refhash::murmur3_x64_128(&bytes, 9001);
        let want = ((h2.leading_zeros().min(62) + 1) << 26) | (h1 as u32 & 0x3ff_ffff);
        for (t, lg_k) in [(HllType::Hll4, 4u8), (HllType::Hll6, 12), (HllType::Hll8, 21)] {
            let mut s = HllSketch::new(lg_k, t);
            s.update(item.clone());
            let st = s.verif_state();
            let got: Vec<u32> = st.coupon_table.iter().copied().filter(|&c| c != 0).collect();
            ctx.check(got == vec![want], "HLL coupon != reference derivation (hook)", || {
                format!("{} lg_k={} got={:x?} want={:x}", desc(), lg_k, got, want)
            });
            let img = s.serialize();
            let ok = img.len() == 12 && u32::from_le_bytes([img[8], img[9], img[10], img[11]]) == want;
            ctx.check(ok, "HLL coupon != reference derivation (image)", || {
                format!("{} lg_k={} image={} want={:x}", desc(), lg_k, hex(&img), want)
            });
        }
    }

    // theta hash for several seeds
    for &seed in &[9001u64, 0, 1, u64::MAX, rng.next_u64()] {
        if refhash::seed_hash(seed) == 0 {
            continue;
        }
        let (h1, _) = refhash::murmur3_x64_128(&bytes, seed);
        let want = h1 >> 1;
        let mut s = ThetaSketch::builder().lg_k(5).seed(seed).build();
        s.update(item.clone());
        let got: Vec<u64> = s.iter().collect();
        let expect: Vec<u64> = if want == 0 || want >= s.theta64() { vec![] } else { vec![want] };
        ctx.check(got == expect, "theta hash != reference derivation", || {
            format!("{} seed={} got={:x?} want={:x?}", desc(), seed, got, expect)
        });
        // seed hash in the compact image
        let img = s.compact(true).serialize();
        let sh = u16::from_le_bytes([img[6], img[7]]);
        ctx.check(sh == refhash::seed_hash(seed), "theta image seed hash != reference", || {
            format!("seed={} image={} want={:04x}", seed, hex(&img[..8]), refhash::seed_hash(seed))
        });
    }

    // CPC row / col
    for &seed in &[9001u64, 0, u64::MAX, rng.next_u64()] {
        if refhash::seed_hash(seed) == 0 {
            continue;
        }
        let lg_k = *rng.pick(&[4u8, 7, 11, 16]);
        let (h1, h2) = refhash::murmur3_x64_128(&bytes, seed);
        let k = 1u64 << lg_k;
        let col = h2.leading_zeros().min(63);
        let row = (h1 & (k - 1)) as usize;
        let mut s = CpcSketch::with_seed(lg_k, seed);
        s.update(item.clone());
        let m = s.verif_bit_matrix();
        let mut ok = s.num_coupons() == 1;
        for (r, w) in m.iter().enumerate() {
            let want = if r == row { 1u64 << col } else { 0 };
            if *w != want {
                ok = false;
            }
        }
        ctx.check(ok, "CPC (row,col) != reference derivation", || {
            format!("{} seed={} lg_k={} want row={} col={} coupons={}", desc(), seed, lg_k, row, col, s.num_coupons())
        });
        let img = s.serialize();
        // the derivation is a function of the item and the seed only -- also for a sketch that was written and read
        // back: offering the same item again must find its coupon already there
        if let Ok(mut d) = CpcSketch::deserialize_with_seed(&img, seed) {
            d.update(item.clone());
            ctx.check(d.num_coupons() == 1 && d.verif_bit_matrix() == m, "CPC (row,col) != reference derivation", || {
                format!("{} seed={} lg_k={}: after serialize/deserialize the same item maps to another coupon ({} coupons)", desc(), seed, lg_k, d.num_coupons())
            });
        }
        let sh = u16::from_le_bytes([img[6], img[7]]);
        ctx.check(sh == refhash::seed_hash(seed), "CPC image seed hash != reference", || {
            format!("seed={} image={} want={:04x}", seed, hex(&img[..8]), refhash::seed_hash(seed))
        });
    }

    // Count-Min bucket of every row
    for &seed in &[9001u64, 0, u64::MAX, rng.next_u64()] {
        if refhash::seed_hash(seed) == 0 {
            continue;
        }
        let num_hashes = rng.range(1, 8) as u8;
        let num_buckets = rng.range(3, 600) as u32;
        let mut s: CountMinSketch<u64> = CountMinSketch::with_seed(num_hashes, num_buckets, seed);
        s.update_with_weight(item.clone(), 5);
        let img = s.serialize();
        let mut ok = img.len() == 24 + 8 * (num_hashes as usize * num_buckets as usize);
        if ok {
            for row in 0..num_hashes as usize {
                let row_seed = refhash::murmur3_x64_128(&(row as u64).to_le_bytes(), seed).0;
                let bucket = (refhash::murmur3_x64_128(&bytes, row_seed).0 % num_buckets as u64) as usize;
                for b in 0..num_buckets as usize {
                    let off = 24 + 8 * (row * num_buckets as usize + b);
                    let v = u64::from_le_bytes(img[off..off + 8].try_into().unwrap());
                    let want = if b == bucket { 5 } else { 0 };
                    if v != want {
                        ok = false;
                    }
                }
            }
        }
        ctx.check(ok, "Count-Min bucket != reference derivation", || {
            format!("{} seed={} hashes={} buckets={}", desc(), seed, num_hashes, num_buckets)
        });
        let sh = u16::from_le_bytes([img[13], img[14]]);
        ctx.check(sh == refhash::seed_hash(seed), "Count-Min image seed hash != reference", || {
            format!("seed={} image={} want={:04x}", seed, hex(&img[..16]), refhash::seed_hash(seed))
        });
    }

    // Bloom positions
    for &seed in &[9001u64, 0, u64::MAX, rng.next_u64()] {
        let bits = *rng.pick(&[1u64, 63, 64, 65, 1000, 4096, 65536, 100_003]);
        let nh = rng.range(1, 16) as u16;
        let mut f = BloomFilterBuilder::with_size(bits, nh).seed(seed).build();
        f.insert(item.clone());
        let cap = (bits.div_ceil(64) * 64) as u64;
        let h0 = refhash::xxh64(&bytes, seed);
        let h1 = refhash::xxh64(&bytes, h0);
        let mut model = vec![0u64; (cap / 64) as usize];
        for i in 1..=nh as u64 {
            let pos = (h0.wrapping_add(i.wrapping_mul(h1)) >> 1) % cap;
            model[(pos / 64) as usize] |= 1 << (pos % 64);
        }
        let img = f.serialize();
        let mut ok = img.len() == 32 + 8 * model.len();
        if ok {
            for (w, m) in model.iter().enumerate() {
                let off = 32 + 8 * w;
                if u64::from_le_bytes(img[off..off + 8].try_into().unwrap()) != *m {
                    ok = false;
                }
            }
        }
        ctx.check(ok, "Bloom positions != reference derivation", || {
            format!("{} seed={} bits={} hashes={}", desc(), seed, bits, nh)
        });
    }
}

/// `update_f64` / `update_f32` hash the canonical bit pattern of the double (one NaN, one zero): the derived theta hash
/// and CPC (row, col) must be those of that pattern for every special value.
fn derived_floats(ctx: &mut Ctx, rng: &mut Rng) {
    for i in 0..6 {
        let (v64, is32) = if i % 2 == 0 { (rt::special_f64(rng), false) } else { (rt::special_f32(rng) as f64, true) };
        let v32 = v64 as f32;
        let bits = rt::canonical_f64_bits(v64);
        let bytes = rt::hashed_bytes(&bits);
        let seed = *rng.pick(&[9001u64, 1, u64::MAX]);
        let (h1, h2) = refhash::murmur3_x64_128(&bytes, seed);
        let mut s = ThetaSketch::builder().lg_k(5).seed(seed).build();
        if is32 {
            s.update_f32(v32);
        } else {
            s.update_f64(v64);
        }
        let want = h1 >> 1;
        let got: Vec<u64> = s.iter().collect();
        let expect: Vec<u64> = if want == 0 || want >= s.theta64() { vec![] } else { vec![want] };
        ctx.evals(1);
        ctx.check(got == expect, "theta hash != reference derivation", || {
            format!("update_f{}({:e}, bits {:016x}) seed={} got={:x?} want={:x?}", if is32 { 32 } else { 64 }, v64, v64.to_bits(), seed, got, expect)
        });
        let lg_k = *rng.pick(&[4u8, 9, 14]);
        let k = 1u64 << lg_k;
        let mut c = CpcSketch::with_seed(lg_k, seed);
        if is32 {
            c.update_f32(v32);
        } else {
            c.update_f64(v64);
        }
        let (row, col) = ((h1 & (k - 1)) as usize, h2.leading_zeros().min(63));
        let m = c.verif_bit_matrix();
        let ok = m.iter().enumerate().all(|(r, w)| if r == row { *w == 1u64 << col } else { *w == 0 });
        ctx.check(ok, "CPC (row,col) != reference derivation", || {
            format!("update_f{}({:e}, bits {:016x}) seed={} lg_k={} want row {} col {}", if is32 { 32 } else { 64 }, v64, v64.to_bits(), seed, lg_k, row, col)
        });
        ctx.cover("float_items");
    }
}

fn derived_case(ctx: &mut Ctx, case: &Json) {
    let cseed = case.u64("seed").unwrap_or(0);
    let mut rng = Rng::new(cseed);
    let mut fp = Fp::new();
    fp.u64(cseed);
    // a spread of item types; each exercises a different write pattern of its Hash impl
    let n = rng.next_u64();
    derived_for_item(ctx, n, "u64", &mut rng);
    derived_for_item(ctx, n as i32, "i32", &mut rng);
    derived_for_item(ctx, n as u8, "u8", &mut rng);
    derived_for_item(ctx, ((n as u128) << 64) | rng.next_u64() as u128, "u128", &mut rng);
    let slen = rng.usize(0, 70);
    let s: String = (0..slen).map(|_| char::from_u32(rng.range(32, 126) as u32).unwrap()).collect();
    derived_for_item(ctx, s.as_str(), "str", &mut rng);
    derived_for_item(ctx, s.clone(), "String", &mut rng);
    let ulen = rng.usize(1, 20);
    let uni: String = (0..ulen)
        .map(|_| char::from_u32(*rng.pick(&[0x41u32, 0xe9, 0x4e2d, 0x1f600, 0x7ff, 0x800])).unwrap())
        .collect();
    derived_for_item(ctx, uni, "String-utf8", &mut rng);
    derived_for_item(ctx, (n as u32, rng.next_u64()), "tuple(u32,u64)", &mut rng);
    derived_for_item(ctx, (s.clone(), n as u16, true), "tuple(String,u16,bool)", &mut rng);
    let vlen = rng.usize(0, 100);
    let v = rng.bytes(vlen);
    derived_for_item(ctx, v.clone(), "Vec<u8>", &mut rng);
    derived_for_item(ctx, &v[..], "&[u8]", &mut rng);
    let arr: [u8; 17] = rng.bytes(17).try_into().unwrap();
    derived_for_item(ctx, arr, "[u8;17]", &mut rng);
    let wlen = rng.usize(0, 9);
    let wide: Vec<u64> = (0..wlen).map(|_| rng.next_u64()).collect();
    derived_for_item(ctx, wide, "Vec<u64>", &mut rng);
    derived_for_item(ctx, char::from_u32(rng.range(32, 0x2fff) as u32).unwrap_or('x'), "char", &mut rng);
    derived_for_item(ctx, (), "unit", &mut rng);
    derived_for_item(ctx, (n, n as u32, rng.next_u32()), "tuple(u64,u32,u32)", &mut rng);
    derived_for_item(ctx, ['a', char::from_u32(rng.range(0x80, 0x7ff) as u32).unwrap_or('b'), 'c', 'd'], "[char;4]", &mut rng);
    for _ in 0..4 {
        let t = gen_typed_seq(&mut rng);
        derived_for_item(ctx, t, "typed-writes", &mut rng);
    }
    derived_floats(ctx, &mut rng);
    ctx.end_case(fp.get(), true);
}

pub fn run_case(ctx: &mut Ctx, case: &Json) {
    ctx.begin_case(case.clone());
    match case.str("lane") {
        Some("digest") => digest_case(ctx, case),
        Some("derived") => derived_case(ctx, case),
        other => ctx.inconclusive(format!("C16: unknown lane {:?}", other)),
    }
}

pub fn run(ctx: &mut Ctx) {
    ctx.note(
        "rule",
        Json::Str(
            "digest lane: one case = one byte string (length 0..=200, random / all-0 / all-FF / single-bit / text) checked \
             under 10 seeds x (one-shot, byte-wise, all 2^(n-1) chunkings for n<=12 plus chunkings with empty chunks, \
             random chunkings otherwise) against the reference one-shot digest; derived lane: one case = 15 items of \
             different Rust types pushed through HLL/theta/CPC/Count-Min/Bloom and compared with reference derivations. \
             distinct = distinct byte strings / item sets (fingerprint of content); non-trivial = non-empty input"
                .into(),
        ),
    );
    // digest lane: lengths 0..=200, several contents each; split across shards by a hash of (len, rep)
    let reps = ctx.tier_pick(24u64, 1000);
    let n_random = ctx.tier_pick(100u64, 400);
    for len in 0..=200u64 {
        for rep in 0..reps {
            if rt::mix(&[len, rep, 77]) % ctx.nshards as u64 != ctx.shard as u64 {
                continue;
            }
            let pattern = if rep % 8 < 4 { 0 } else { rep % 8 - 3 };
            let case = Json::obj()
                .set("lane", "digest")
                .set("len", len)
                .set("pattern", pattern)
                .set("n_random", n_random)
                .set("seed", rt::mix(&[ctx.seed, len, rep, 16]));
            run_case(ctx, &case);
            if ctx.samples.len() < 2 && len > 20 {
                ctx.sample(case);
            }
        }
    }
    let n_derived = ctx.tier_pick(60u64, 2500);
    for i in 0..n_derived {
        let case = Json::obj().set("lane", "derived").set("seed", ctx.case_seed("derived", i));
        run_case(ctx, &case);
        if i == 0 {
            ctx.sample(case);
        }
    }
}

pub fn replay(ctx: &mut Ctx, case: &Json) {
    run_case(ctx, case);
}
