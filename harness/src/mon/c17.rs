//! C17 — no valid sequence of public API calls panics, in debug or release builds.
//!
//! The workload is (a) the valid-use histories of the behavioural monitors (C02..C10, C15), replayed
//! here under both build profiles — with debug assertions and overflow checks on, every
//! `debug_assert!`, `unreachable!` and arithmetic overflow in the library is a monitor of its own — and
//! (b) an "extremes" lane at the documented configuration limits. Documented panics (parameters out of
//! range, incompatible merge partners, NaN ranks, unsorted split points, seeds whose 16-bit hash is 0)
//! are kept out of the grammar.

use datasketches::bloom::BloomFilterBuilder;
use datasketches::common::{NumStdDev, ResizeFactor};
use datasketches::countmin::CountMinSketch;
use datasketches::cpc::{CpcSketch, CpcUnion, CpcWrapper};
use datasketches::frequencies::{ErrorType, FrequentItemsSketch};
use datasketches::hll::{HllSketch, HllType, HllUnion};
use datasketches::tdigest::TDigestMut;
use datasketches::theta::{CompactThetaSketch, ThetaSketch};

use super::c08::Cm;
use super::{c02, c03, c04, c05, c06, c07, c08, c09, c10, c15};
use crate::model::cpc as cm;
use crate::rt::{self, Ctx, Fp, Json, Rng};

const SDS: [NumStdDev; 3] = [NumStdDev::One, NumStdDev::Two, NumStdDev::Three];

/// unwrap a Result of the library; an Err on the library's own image is a violation (not a harness panic)
macro_rules! own {
    ($ctx:expr, $e:expr, $what:expr) => {
        match $e {
            Ok(v) => v,
            Err(err) => {
                $ctx.violation("own image rejected", format!("{}: {}", $what, err));
                return;
            }
        }
    };
}

fn hll_queries(s: &HllSketch) -> f64 {
    let mut acc = s.estimate();
    for sd in SDS {
        acc += s.lower_bound(sd) + s.upper_bound(sd);
    }
    acc + s.is_empty() as u8 as f64 + s.lg_config_k() as f64
}

fn extremes_hll(ctx: &mut Ctx, rng: &mut Rng, lg_k: u8, n: u64) {
    for t in [HllType::Hll4, HllType::Hll6, HllType::Hll8] {
        let mut s = HllSketch::new(lg_k, t);
        let mut acc = hll_queries(&s);
        let salt = rng.next_u64();
        for i in 0..n {
            s.update((salt, i));
            if i.is_power_of_two() {
                acc += hll_queries(&s);
            }
        }
        acc += hll_queries(&s);
        let bytes = s.serialize();
        let d = own!(ctx, HllSketch::deserialize(&bytes), "HLL");
        acc += hll_queries(&d);
        let mut u = HllUnion::new(lg_k);
        u.update(&s);
        u.update(&d);
        u.update_value(1u8);
        for t2 in [HllType::Hll4, HllType::Hll6, HllType::Hll8] {
            acc += hll_queries(&u.to_sketch(t2));
        }
        acc += u.estimate() + u.lower_bound(NumStdDev::Two) + u.upper_bound(NumStdDev::Two);
        u.reset();
        ctx.evals(1);
        std::hint::black_box(acc);
    }
    ctx.cover(&format!("extreme_hll_lg_k_{}", lg_k));
}

fn extremes_cpc(ctx: &mut Ctx, rng: &mut Rng, lg_k: u8, coupons: u64, hashed: u64) {
    let mut s = CpcSketch::new(lg_k);
    let mut acc = 0.0;
    for i in 0..hashed {
        s.update(i);
    }
    if coupons > 0 {
        // deep states cheaply: the natural arrival order of novel coupons (see C05), through the hook
        for rc in cm::natural_order(rng, lg_k, coupons) {
            s.verif_row_col_update(rc);
        }
    }
    for sd in SDS {
        acc += s.lower_bound(sd) + s.upper_bound(sd);
    }
    acc += s.estimate();
    let bytes = s.serialize();
    let d = own!(ctx, CpcSketch::deserialize(&bytes), "CPC");
    acc += d.estimate();
    let w = own!(ctx, CpcWrapper::new(&bytes), "CpcWrapper");
    acc += w.estimate() + w.lower_bound(NumStdDev::Three) + w.upper_bound(NumStdDev::Three);
    if lg_k <= 21 {
        let mut u = CpcUnion::new(lg_k);
        u.update(&s);
        u.update(&d);
        let r = u.to_sketch();
        acc += r.estimate() + r.upper_bound(NumStdDev::One);
        let _ = r.serialize();
        ctx.check(s.validate() && r.validate(), "invariant | CPC validate() is false", || format!("lg_k {}", lg_k));
    }
    let _ = CpcSketch::max_serialized_bytes(lg_k);
    ctx.evals(1);
    ctx.cover(&format!("extreme_cpc_lg_k_{}_flavor_{}", lg_k, cm::flavor(lg_k, s.num_coupons() as u64)));
    std::hint::black_box(acc);
}

fn extremes_theta(ctx: &mut Ctx, rng: &mut Rng, lg_k: u8, n: u64) {
    for (rf, p) in [(ResizeFactor::X1, 1.0f32), (ResizeFactor::X2, 0.5), (ResizeFactor::X4, 1.0), (ResizeFactor::X8, 1e-3)] {
        let mut s = ThetaSketch::builder().lg_k(lg_k).resize_factor(rf).sampling_probability(p).build();
        let salt = rng.next_u64();
        let mut acc = 0.0;
        for i in 0..n {
            s.update((salt, i));
            if i % 1000 == 999 {
                s.update_f64(i as f64 * 0.5);
                s.update_f32(i as f32);
                s.update(format!("{}", i).as_str());
            }
        }
        for sd in SDS {
            acc += s.lower_bound(sd) + s.upper_bound(sd);
        }
        acc += s.estimate() + s.theta() + s.num_retained() as f64;
        for ordered in [true, false] {
            let c = s.compact(ordered);
            for sd in SDS {
                acc += c.lower_bound(sd) + c.upper_bound(sd);
            }
            let a = c.serialize();
            let b = c.serialize_compressed();
            let _ = own!(ctx, CompactThetaSketch::deserialize(&a), "theta v3");
            let _ = own!(ctx, CompactThetaSketch::deserialize(&b), "theta v4");
        }
        s.trim();
        acc += s.estimate();
        s.reset();
        acc += s.upper_bound(NumStdDev::Three);
        ctx.evals(1);
        std::hint::black_box(acc);
    }
    ctx.cover(&format!("extreme_theta_lg_k_{}", lg_k));
}

fn extremes_tdigest(ctx: &mut Ctx, rng: &mut Rng, k: u16, n: usize) {
    let mut d = TDigestMut::new(k);
    let mut acc = 0.0;
    ctx.check(d.cdf(&[]).is_none() && d.pmf(&[1.0]).is_none(), "invariant | empty digest answers cdf/pmf", || format!("k {}", k));
    for i in 0..n {
        d.update(rng.normal() * 10.0 + (i % 3) as f64);
        if i % 997 == 0 {
            d.update(f64::NAN);
            d.update(f64::INFINITY);
        }
    }
    for q in [0.0, 1e-9, 0.25, 0.5, 0.999, 1.0] {
        acc += d.quantile(q).unwrap_or(0.0);
    }
    for v in [-1e9, -3.0, 0.0, 0.1, 7.5, 1e9] {
        acc += d.rank(v).unwrap_or(0.0);
    }
    // valid split lists: empty, single, several strictly increasing
    for sp in [&[][..], &[0.0][..], &[-5.0, 0.0, 5.0, 50.0][..]] {
        acc += d.cdf(sp).map(|v| v.iter().sum::<f64>()).unwrap_or(0.0);
        acc += d.pmf(sp).map(|v| v.iter().sum::<f64>()).unwrap_or(0.0);
    }
    let bytes = d.serialize();
    let mut e = own!(ctx, TDigestMut::deserialize(&bytes, false), "t-digest");
    e.merge(&d);
    let mut f = TDigestMut::new(if k > 20 { k - 7 } else { k + 13 });
    f.merge(&e);
    f.merge(&TDigestMut::new(k));
    let frozen = f.clone().freeze();
    acc += frozen.quantile(0.5).unwrap_or(0.0) + frozen.rank(1.0).unwrap_or(0.0);
    acc += frozen.cdf(&[]).map(|v| v[0]).unwrap_or(0.0);
    let mut back = frozen.unfreeze();
    back.update(1.0);
    acc += back.total_weight() as f64 + back.min_value().unwrap_or(0.0) + back.max_value().unwrap_or(0.0);
    ctx.evals(1);
    ctx.cover(&format!("extreme_tdigest_k_{}", k));
    std::hint::black_box(acc);
}

fn extremes_fi(ctx: &mut Ctx, rng: &mut Rng) {
    for size in [1usize, 2, 4, 8, 16, 2048] {
        let mut a: FrequentItemsSketch<i64> = FrequentItemsSketch::new(size);
        let mut b: FrequentItemsSketch<String> = FrequentItemsSketch::new(size);
        let mut c: FrequentItemsSketch<u64> = FrequentItemsSketch::new(size);
        for i in 0..(size as i64 * 6) {
            let w = 1u64 << rng.below(41);
            a.update_with_count(i % (size as i64 * 2) - 5, w);
            b.update_with_count(format!("k{}", i % 50), w);
            c.update(rng.next_u64() >> 50);
            c.update_with_count(7, 0);
        }
        let mut acc = 0u64;
        for et in [ErrorType::NoFalsePositives, ErrorType::NoFalseNegatives] {
            acc += a.frequent_items(et).len() as u64 + b.frequent_items(et).len() as u64 + c.frequent_items_with_threshold(et, 3).len() as u64;
        }
        acc += a.estimate(&1) + a.lower_bound(&1) + a.upper_bound(&1) + a.maximum_error() + a.total_weight();
        acc += a.epsilon() as u64 + a.current_map_capacity() as u64 + a.maximum_map_capacity() as u64;
        let a2 = own!(ctx, FrequentItemsSketch::<i64>::deserialize(&a.serialize()), "FrequentItems<i64>");
        let b2 = own!(ctx, FrequentItemsSketch::<String>::deserialize(&b.serialize()), "FrequentItems<String>");
        a.merge(&a2);
        b.merge(&b2);
        let mut small: FrequentItemsSketch<i64> = FrequentItemsSketch::new(8);
        small.merge(&a);
        a.merge(&small);
        a.reset();
        acc += a.total_weight() + b.total_weight();
        let e: FrequentItemsSketch<u64> = FrequentItemsSketch::new(size);
        let _ = own!(ctx, FrequentItemsSketch::<u64>::deserialize(&e.serialize()), "FrequentItems empty");
        ctx.evals(1);
        std::hint::black_box(acc);
    }
    ctx.cover("extreme_frequent_items");
}

fn extremes_cm_typed<T: Cm>(ctx: &mut Ctx, rng: &mut Rng) {
    for (h, b) in [(1u8, 3u32), (8, 3), (3, 512)] {
        let mut s: CountMinSketch<T> = CountMinSketch::with_seed(h, b, 9001);
        // weights whose total stays inside the counter type
        let mut total: i128 = 0;
        let target = T::MAXV.min(1i128 << 33);
        let mut i = 0u64;
        while total < target {
            let w = ((target - total) / 3).max(1).min(target - total);
            s.update_with_weight(i % 11, T::from_i(w));
            total += w;
            i += 1;
            if i > 200 {
                break;
            }
        }
        let mut acc = 0i128;
        for x in 0..12u64 {
            acc += s.estimate(x).to_i() + s.lower_bound(x).to_i() + s.upper_bound(x).to_i();
        }
        let other: CountMinSketch<T> = CountMinSketch::with_seed(h, b, 9001);
        s.merge(&other);
        T::lib_halve(&mut s);
        T::lib_decay(&mut s, 0.5);
        T::lib_decay(&mut s, 1.0);
        let d = own!(ctx, CountMinSketch::<T>::deserialize(&s.serialize()), "CountMin");
        acc += d.total_weight().to_i();
        let _ = (s.relative_error(), s.is_empty(), s.num_hashes(), s.num_buckets(), s.seed());
        let _ = (CountMinSketch::<T>::suggest_num_buckets(0.01), CountMinSketch::<T>::suggest_num_hashes(0.99), CountMinSketch::<T>::suggest_num_hashes(1.0));
        let _ = rng.next_u64();
        ctx.evals(1);
        std::hint::black_box(acc);
    }
}

fn extremes_bloom(ctx: &mut Ctx, rng: &mut Rng) {
    for (bits, h) in [(1u64, 1u16), (1, 16), (63, 3), (64, 32767), (100_000, 7)] {
        let mut f = BloomFilterBuilder::with_size(bits, h.min(64)).seed(rng.next_u64()).build();
        let mut g = f.clone();
        for i in 0..200u64 {
            f.insert(i);
            let _ = g.contains_and_insert(&(i * 3));
        }
        f.union(&g);
        f.intersect(&g);
        f.invert();
        let _ = (f.contains(&5u64), f.bits_used(), f.capacity(), f.load_factor(), f.estimated_fpp(), f.is_empty());
        let d = own!(ctx, datasketches::bloom::BloomFilter::deserialize(&f.serialize()), "Bloom");
        ctx.check(d.is_compatible(&f), "invariant | deserialized Bloom filter is not compatible with its source", || format!("bits {}", bits));
        f.reset();
        let _ = own!(ctx, datasketches::bloom::BloomFilter::deserialize(&f.serialize()), "Bloom empty");
        ctx.evals(1);
    }
    for (n, p) in [(1u64, 0.5f64), (1, 1e-9), (1000, 1.0), (10_000_000, 0.01)] {
        let f = BloomFilterBuilder::with_accuracy(n, p).build();
        let _ = (f.capacity(), f.num_hashes());
        let _ = BloomFilterBuilder::suggest_num_bits(n, p);
        let _ = BloomFilterBuilder::suggest_num_hashes_from_fpp(p);
        ctx.evals(1);
    }
    ctx.cover("extreme_bloom");
}

fn cpc_queries(s: &CpcSketch) -> f64 {
    let mut acc = s.estimate() + s.num_coupons() as f64 + s.is_empty() as u8 as f64;
    for sd in SDS {
        acc += s.lower_bound(sd) + s.upper_bound(sd);
    }
    acc
}

/// Every lg_k of the documented range, every estimator path (HIP, coupon, composite after a union), every
/// standard-deviation level: table-indexed code (interpolation tables per lg_k, relative-error tables with an
/// lg_k cut-off, ICON coefficients) has one row per lg_k, and a wrong guard shows at exactly one of them.
fn sweep_hll(ctx: &mut Ctx, rng: &mut Rng, big: bool) {
    for lg_k in 4u8..=21 {
        let k = 1u64 << lg_k;
        let cap = if big { 3_000_000 } else { 150_000 };
        for t in [HllType::Hll4, HllType::Hll6, HllType::Hll8] {
            let mut acc = 0.0;
            for n in [0u64, 1, 7, 8, 9, (k / 8).max(10), (3 * k / 32).max(12), (k / 2).min(cap), (3 * k).min(cap)] {
                let salt = rng.next_u64();
                let mut a = HllSketch::new(lg_k, t);
                let mut b = HllSketch::new((lg_k + (n % 3) as u8).min(21), t);
                for i in 0..n {
                    a.update((salt, i));
                    if i % 2 == 0 {
                        b.update((salt, i + n / 2));
                    }
                }
                acc += hll_queries(&a);
                let d = own!(ctx, HllSketch::deserialize(&a.serialize()), "HLL");
                acc += hll_queries(&d);
                let mut u = HllUnion::new(lg_k);
                u.update(&a);
                u.update(&b);
                acc += u.estimate();
                for sd in SDS {
                    acc += u.lower_bound(sd) + u.upper_bound(sd);
                }
                for t2 in [HllType::Hll4, HllType::Hll6, HllType::Hll8] {
                    let r = u.to_sketch(t2);
                    acc += hll_queries(&r);
                    let rd = own!(ctx, HllSketch::deserialize(&r.serialize()), "HLL union result");
                    acc += hll_queries(&rd);
                }
                ctx.evals(1);
            }
            std::hint::black_box(acc);
        }
        ctx.cover(&format!("sweep_hll_lg_k_{:02}", lg_k));
    }
}

fn sweep_cpc(ctx: &mut Ctx, rng: &mut Rng, big: bool) {
    for lg_k in 4u8..=26 {
        let k = 1u64 << lg_k;
        let cap: u64 = if big { 1_500_000 } else { 120_000 };
        let mut acc = 0.0;
        for c in [0u64, 1, (k / 16).max(2), k / 2 + 3, 2 * k, 4 * k] {
            let c = c.min(cap).min(cm::max_coupons_in_envelope(lg_k));
            let mut a = CpcSketch::new(lg_k);
            let mut b = CpcSketch::new(lg_k);
            for rc in cm::natural_order(rng, lg_k, c) {
                a.verif_row_col_update(rc);
            }
            for i in 0..c.min(3000) {
                b.update((c, i));
            }
            acc += cpc_queries(&a);
            let img = a.serialize();
            let d = own!(ctx, CpcSketch::deserialize(&img), "CPC");
            acc += cpc_queries(&d);
            let w = own!(ctx, CpcWrapper::new(&img), "CpcWrapper");
            acc += w.estimate();
            for sd in SDS {
                acc += w.lower_bound(sd) + w.upper_bound(sd);
            }
            // the merged (ICON) path
            let mut u = CpcUnion::new(lg_k);
            u.update(&a);
            u.update(&b);
            let r = u.to_sketch();
            acc += cpc_queries(&r);
            let rimg = r.serialize();
            let rd = own!(ctx, CpcSketch::deserialize(&rimg), "CPC union result");
            acc += cpc_queries(&rd);
            let rw = own!(ctx, CpcWrapper::new(&rimg), "CpcWrapper on a union result");
            acc += rw.estimate();
            for sd in SDS {
                acc += rw.lower_bound(sd) + rw.upper_bound(sd);
            }
            ctx.evals(1);
        }
        let _ = CpcSketch::max_serialized_bytes(lg_k);
        std::hint::black_box(acc);
        ctx.cover(&format!("sweep_cpc_lg_k_{:02}", lg_k));
    }
}

fn sweep_theta(ctx: &mut Ctx, rng: &mut Rng, big: bool) {
    for lg_k in 5u8..=26 {
        let k = 1u64 << lg_k;
        let cap: u64 = if big { 2_000_000 } else { 100_000 };
        let mut acc = 0.0;
        for (j, n) in [0u64, 1, k - 1, k, k + 1, 2 * k, 5 * k].into_iter().enumerate() {
            let n = n.min(cap);
            let rf = if lg_k <= 16 { [ResizeFactor::X1, ResizeFactor::X2, ResizeFactor::X4, ResizeFactor::X8][j % 4] } else { ResizeFactor::X8 };
            let p = [1.0f32, 1.0, 0.5, 1.0, 0.01, 1.0, 1.0][j];
            let mut s = ThetaSketch::builder().lg_k(lg_k).resize_factor(rf).sampling_probability(p).build();
            let salt = rng.next_u64();
            for i in 0..n {
                s.update((salt, i));
            }
            for round in 0..2 {
                for sd in SDS {
                    acc += s.lower_bound(sd) + s.upper_bound(sd);
                }
                acc += s.estimate() + s.num_retained() as f64;
                let c = s.compact(j % 2 == 0);
                for sd in SDS {
                    acc += c.lower_bound(sd) + c.upper_bound(sd);
                }
                let c3 = own!(ctx, CompactThetaSketch::deserialize(&c.serialize()), "theta v3");
                let c4 = own!(ctx, CompactThetaSketch::deserialize(&c.serialize_compressed()), "theta v4");
                acc += c3.estimate() + c4.estimate() + c4.upper_bound(NumStdDev::Two);
                // trim at exactly k, below k and above k retained entries; twice in a row
                s.trim();
                s.trim();
                if round == 0 {
                    s.update((salt, n + 1));
                }
            }
            ctx.evals(1);
        }
        std::hint::black_box(acc);
        ctx.cover(&format!("sweep_theta_lg_k_{:02}", lg_k));
    }
}

/// The public codec helpers: every typed write is read back bit-exactly in the same byte order and byte-swapped in
/// the other; reads past the end are errors, not panics; `advance` accepts any distance.
fn extremes_codec(ctx: &mut Ctx, rng: &mut Rng) {
    use datasketches::codec::{SketchBytes, SketchSlice};
    for round in 0..200 {
        let n = rng.usize(0, 40);
        let mut out = SketchBytes::with_capacity(rng.usize(0, 64));
        let mut expect: Vec<(u8, u64)> = vec![];
        for _ in 0..n {
            let kind = rng.below(22) as u8;
            let v = match rng.below(4) {
                0 => 0,
                1 => u64::MAX,
                2 => 1u64 << rng.below(64),
                _ => rng.next_u64(),
            };
            match kind {
                0 => out.write_u8(v as u8),
                1 => out.write_i8(v as i8),
                2 => out.write_u16_le(v as u16),
                3 => out.write_u16_be(v as u16),
                4 => out.write_i16_le(v as i16),
                5 => out.write_i16_be(v as i16),
                6 => out.write_u32_le(v as u32),
                7 => out.write_u32_be(v as u32),
                8 => out.write_i32_le(v as i32),
                9 => out.write_i32_be(v as i32),
                10 => out.write_u64_le(v),
                11 => out.write_u64_be(v),
                12 => out.write_i64_le(v as i64),
                13 => out.write_i64_be(v as i64),
                14 => out.write_f32_le(f32::from_bits(v as u32)),
                15 => out.write_f32_be(f32::from_bits(v as u32)),
                16 => out.write_f64_le(f64::from_bits(v)),
                17 => out.write_f64_be(f64::from_bits(v)),
                _ => out.write(&v.to_le_bytes()[..(kind as usize - 17)]),
            }
            expect.push((kind, v));
        }
        let bytes = out.into_bytes();
        // independent expectation of the byte string
        let mut want: Vec<u8> = vec![];
        for &(kind, v) in &expect {
            let (w, be) = match kind {
                0 | 1 => (1, false),
                2 | 4 => (2, false),
                3 | 5 => (2, true),
                6 | 8 | 14 => (4, false),
                7 | 9 | 15 => (4, true),
                10 | 12 | 16 => (8, false),
                11 | 13 | 17 => (8, true),
                k => (k as usize - 17, false),
            };
            let le = &v.to_le_bytes()[..w];
            if be {
                want.extend(le.iter().rev());
            } else {
                want.extend(le);
            }
        }
        ctx.evals(1);
        if bytes != want {
            ctx.violation("invariant | codec writes other bytes than the typed values in the stated byte order", format!("round {}: {} vs {}", round, rt::json::hex(&bytes), rt::json::hex(&want)));
            return;
        }
        let mut rd = SketchSlice::new(&bytes);
        let mut ok = true;
        for &(kind, v) in &expect {
            let got: Option<u64> = match kind {
                0 => rd.read_u8().ok().map(|x| x as u64),
                1 => rd.read_i8().ok().map(|x| x as u8 as u64),
                2 => rd.read_u16_le().ok().map(|x| x as u64),
                3 => rd.read_u16_be().ok().map(|x| x as u64),
                4 => rd.read_i16_le().ok().map(|x| x as u16 as u64),
                5 => rd.read_i16_be().ok().map(|x| x as u16 as u64),
                6 => rd.read_u32_le().ok().map(|x| x as u64),
                7 => rd.read_u32_be().ok().map(|x| x as u64),
                8 => rd.read_i32_le().ok().map(|x| x as u32 as u64),
                9 => rd.read_i32_be().ok().map(|x| x as u32 as u64),
                10 => rd.read_u64_le().ok(),
                11 => rd.read_u64_be().ok(),
                12 => rd.read_i64_le().ok().map(|x| x as u64),
                13 => rd.read_i64_be().ok().map(|x| x as u64),
                14 => rd.read_f32_le().ok().map(|x| x.to_bits() as u64),
                15 => rd.read_f32_be().ok().map(|x| x.to_bits() as u64),
                16 => rd.read_f64_le().ok().map(|x| x.to_bits()),
                17 => rd.read_f64_be().ok().map(|x| x.to_bits()),
                k => {
                    let mut buf = vec![0u8; k as usize - 17];
                    rd.read_exact(&mut buf).ok().map(|_| {
                        let mut a = [0u8; 8];
                        a[..buf.len()].copy_from_slice(&buf);
                        u64::from_le_bytes(a)
                    })
                }
            };
            let width_mask = match kind {
                0 | 1 => 0xff,
                2..=5 => 0xffff,
                6..=9 | 14 | 15 => 0xffff_ffff,
                10..=13 | 16 | 17 => u64::MAX,
                k => (1u64 << (8 * (k as u64 - 17))) - 1,
            };
            if got != Some(v & width_mask) {
                ok = false;
                ctx.violation("invariant | codec read does not return the value written", format!("round {} kind {}: {:?} vs {:#x}", round, kind, got, v & width_mask));
                break;
            }
        }
        if ok {
            ctx.check(rd.remaining() == 0, "invariant | codec remaining() != 0 after reading everything", || format!("round {}", round));
            // past the end: errors, never panics, whatever the distance
            let past = rd.read_u8().is_err() && rd.read_u64_be().is_err() && rd.read_f32_le().is_err();
            ctx.check(past, "invariant | codec read past the end succeeded", || format!("round {}", round));
            let mut rd2 = SketchSlice::new(&bytes);
            rd2.advance(*rng.pick(&[0u64, 1, bytes.len() as u64, bytes.len() as u64 + 1, u32::MAX as u64, u64::MAX / 2, u64::MAX]));
            rd2.advance(*rng.pick(&[0u64, 7, u64::MAX]));
            let _ = rd2.remaining();
            let _ = rd2.read_u16_le();
        }
    }
    ctx.cover("extreme_codec");
}

/// Constructors and static helpers with a fallible or table-driven result.
fn extremes_statics(ctx: &mut Ctx, rng: &mut Rng) {
    for k in [0u16, 1, 9, 10, 11, 100, 32767, 32768, 65535] {
        match TDigestMut::try_new(k) {
            Ok(mut d) => {
                ctx.check(k >= 10, "invariant | TDigestMut::try_new accepted k below 10", || format!("k {}", k));
                d.update(1.0);
                let _ = d.quantile(0.5);
            }
            Err(_) => {
                ctx.check(k < 10, "invariant | TDigestMut::try_new rejected a documented k", || format!("k {}", k));
            }
        }
        ctx.evals(1);
    }
    for lg in 0u8..=30 {
        let e = FrequentItemsSketch::<i64>::epsilon_for_lg(lg);
        let a = FrequentItemsSketch::<i64>::apriori_error(lg, *rng.pick(&[0i64, 1, 1 << 40, i64::MAX]));
        ctx.check(e.is_finite() && e > 0.0 && a.is_finite() && a >= 0.0, "invariant | frequent items epsilon / a-priori error not finite", || format!("lg {}", lg));
        ctx.evals(1);
    }
    for (n, bits) in [(1u64, 1u64), (1, 64), (1000, 8), (1_000_000, 1 << 30), (u32::MAX as u64, 1 << 20), (1, u32::MAX as u64)] {
        let h = BloomFilterBuilder::suggest_num_hashes_from_accuracy(n, bits);
        ctx.check(h >= 1, "invariant | suggested number of Bloom hashes is 0", || format!("n {} bits {}", n, bits));
        ctx.evals(1);
    }
    ctx.cover("extreme_statics");
}

fn extremes_case(ctx: &mut Ctx, case: &Json) {
    let mut rng = Rng::new(case.u64("seed").unwrap_or(0));
    let what = case.str("what").unwrap_or("");
    let big = case.bool("big").unwrap_or(false);
    match what {
        "hll" => {
            extremes_hll(ctx, &mut rng, 4, 3000);
            extremes_hll(ctx, &mut rng, 12, 60_000);
            extremes_hll(ctx, &mut rng, 21, if big { 6_000_000 } else { 400_000 });
        }
        "cpc" => {
            extremes_cpc(ctx, &mut rng, 4, 0, 2000);
            extremes_cpc(ctx, &mut rng, 4, cm::max_coupons_in_envelope(4), 0);
            extremes_cpc(ctx, &mut rng, 11, 0, 100_000);
            // lg_k 21: every flavor up to the sliding window (C up to 4K), the regime of 32-bit overflows
            let k21 = 1u64 << 21;
            for c in [k21 / 16, k21 / 2 + 5, k21 * 2, if big { k21 * 5 } else { k21 * 7 / 2 }] {
                extremes_cpc(ctx, &mut rng, 21, c, 0);
            }
            extremes_cpc(ctx, &mut rng, 26, 0, 5000);
            if big {
                extremes_cpc(ctx, &mut rng, 26, (1u64 << 26) / 10, 0);
            }
        }
        "theta" => {
            extremes_theta(ctx, &mut rng, 5, 5000);
            extremes_theta(ctx, &mut rng, 12, 50_000);
            extremes_theta(ctx, &mut rng, 20, if big { 3_000_000 } else { 100_000 });
        }
        "tdigest" => {
            for k in [10u16, 11, 29, 30, 200, 32767, 32768, 40000, 65535] {
                extremes_tdigest(ctx, &mut rng, k, if k > 1000 { 200_000 } else { 20_000 });
            }
        }
        "frequent" => extremes_fi(ctx, &mut rng),
        "countmin" => {
            extremes_cm_typed::<i8>(ctx, &mut rng);
            extremes_cm_typed::<i16>(ctx, &mut rng);
            extremes_cm_typed::<i32>(ctx, &mut rng);
            extremes_cm_typed::<i64>(ctx, &mut rng);
            extremes_cm_typed::<u8>(ctx, &mut rng);
            extremes_cm_typed::<u16>(ctx, &mut rng);
            extremes_cm_typed::<u32>(ctx, &mut rng);
            extremes_cm_typed::<u64>(ctx, &mut rng);
            ctx.cover("extreme_countmin");
        }
        "bloom" => extremes_bloom(ctx, &mut rng),
        "codec" => extremes_codec(ctx, &mut rng),
        "statics" => extremes_statics(ctx, &mut rng),
        "sweep-hll" => sweep_hll(ctx, &mut rng, big),
        "sweep-cpc" => sweep_cpc(ctx, &mut rng, big),
        "sweep-theta" => sweep_theta(ctx, &mut rng, big),
        other => ctx.inconclusive(format!("C17: unknown extremes lane {:?}", other)),
    }
    let mut fp = Fp::new();
    fp.u64(rt::mix_str(what));
    fp.u64(case.u64("seed").unwrap_or(0));
    ctx.end_case(fp.get(), true);
}

pub const EXTREMES: [&str; 12] = ["hll", "cpc", "theta", "tdigest", "frequent", "countmin", "bloom", "sweep-hll", "sweep-cpc", "sweep-theta", "codec", "statics"];

/// C17 asks one thing of the borrowed monitors: that nothing panics. Their other clauses belong to their own
/// properties (and are judged there, with their own known findings); only panic violations are kept here.
fn keep_panics_only(ctx: &mut Ctx, n_before: usize, counts_before: &std::collections::BTreeMap<String, u64>) {
    let mut kept = vec![];
    for v in ctx.violations.drain(n_before..) {
        if v.signature.contains("| panic |") {
            kept.push(v);
        }
    }
    ctx.violations.extend(kept);
    let keys: Vec<String> = ctx.violation_counts.keys().cloned().collect();
    for k in keys {
        if !k.contains("| panic |") && !k.contains("| invariant |") && !k.contains("own image rejected") {
            match counts_before.get(&k) {
                Some(n) => {
                    ctx.violation_counts.insert(k, *n);
                }
                None => {
                    ctx.violation_counts.remove(&k);
                }
            }
        }
    }
}

pub fn run_case(ctx: &mut Ctx, case: &Json) {
    let n_before = ctx.violations.len();
    let counts_before = ctx.violation_counts.clone();
    run_case_inner(ctx, case);
    if case.str("via") != Some("extremes") {
        keep_panics_only(ctx, n_before, &counts_before);
    }
}

fn run_case_inner(ctx: &mut Ctx, case: &Json) {
    match case.str("via") {
        Some("C02") => c02::run_case(ctx, case),
        Some("C03") => c03::run_case(ctx, case),
        Some("C04") => c04::run_case(ctx, case),
        Some("C05") => c05::run_case(ctx, case),
        Some("C06") => c06::run_case(ctx, case),
        Some("C07") => c07::run_case(ctx, case),
        Some("C08") => {
            let mut t = std::collections::HashMap::new();
            c08::run_case_t(ctx, case, &mut t)
        }
        Some("C09") => c09::run_case(ctx, case),
        Some("C10") => c10::run_case(ctx, case),
        Some("C15") => c15::run_case(ctx, case),
        Some("extremes") => {
            ctx.begin_case(case.clone());
            let r = rt::guard(|| extremes_case(ctx, case));
            if let Err(p) = r {
                ctx.panic_violation(&format!("extremes/{}", case.str("what").unwrap_or("?")), &p);
            }
        }
        other => ctx.inconclusive(format!("C17: unknown lane {:?}", other)),
    }
}

pub fn run(ctx: &mut Ctx) {
    ctx.note(
        "rule",
        Json::Str(
            "one case = one valid program: either a history of one of the behavioural monitors (C02 HLL incl. hook lanes with \
             cur_min shifts and live exceptions, C03 unions, C04 theta, C05 CPC through all flavors and window offsets, \
             C06 CPC unions, C07 frequent items, C08 Count-Min in all counter types, C09 Bloom, C10/C15 t-digest incl. \
             empty split lists) or an 'extremes' program at the documented limits (HLL lg_k 4/21, CPC lg_k 4/21/26 incl. \
             windowed sketches at lg_k 21, theta lg_k 5/20, t-digest k = 10 .. 65535, Frequent Items size 8 with weights to \
             2^40, Count-Min 1x3 in all 8 types with totals at the type's maximum, Bloom 1 bit) or a 'sweep' program (every \
             lg_k of the documented range of HLL 4..21, CPC 4..26 and theta 5..26 at several fill levels: all queries at \
             all three standard deviations on streamed, deserialized and united sketches, wrappers and compact forms, \
             trim at exactly k retained entries), the public codec helpers (typed writes read back in both byte orders, reads \
             and advance past the end) and the fallible / static constructors, executed in the dbg \
             (debug-assertions + overflow-checks) and the rel profile; any panic is a violation, and the monitors' own \
             invariants stay armed. distinct = fingerprint per program; non-trivial = the program performed updates"
                .into(),
        ),
    );
    // (b) extremes: spread over the shards
    for (i, what) in EXTREMES.iter().enumerate() {
        if i % ctx.nshards == ctx.shard {
            let case = Json::obj().set("via", "extremes").set("what", *what).set("big", !ctx.quick()).set("seed", ctx.case_seed("extremes", i as u64));
            run_case(ctx, &case);
            ctx.sample(case);
        }
    }
    // (a) histories of the behavioural monitors
    let mut rng = ctx.rng("c17");
    let scale = ctx.tier_pick(1u64, 120);
    for i in 0..(6 * scale) {
        let lg_k = rng.range(4, 12);
        let k = 1u64 << lg_k;
        let case = Json::obj().set("via", "C02").set("lane", if i % 3 == 2 { "public" } else { "hook" }).set("lg_k", lg_k).set("budget", (k * 14).min(40_000)).set("n", (k * 4).min(30_000)).set("seed", ctx.case_seed("c02", i));
        run_case(ctx, &case);
    }
    for i in 0..(40 * scale) {
        let case = Json::obj().set("via", "C03").set("lane", "union").set("lg_max_k", rng.range(4, 14)).set("max_in_lg", 12u64).set("seed", ctx.case_seed("c03", i));
        run_case(ctx, &case);
    }
    for i in 0..(12 * scale) {
        let lg_k = rng.range(5, 11);
        let case = Json::obj().set("via", "C04").set("lane", if i % 2 == 0 { "public" } else { "adversarial" }).set("lg_k", lg_k).set("rf", rng.below(4)).set("p", *rng.pick(&[1.0f64, 0.5, 0.01])).set("n_ops", (1u64 << lg_k) * 6).set("seed", ctx.case_seed("c04", i));
        run_case(ctx, &case);
    }
    for i in 0..(4 * scale) {
        let lg_k = rng.range(4, 9);
        let case = Json::obj().set("via", "C05").set("lane", "hook").set("lg_k", lg_k).set("plant", i % 2 == 1).set("delay", i % 4 >= 2).set("stride", 64u64).set("seed", ctx.case_seed("c05", i));
        run_case(ctx, &case);
    }
    for i in 0..(10 * scale) {
        let case = Json::obj().set("via", "C06").set("lane", "union").set("lg_k", rng.range(4, 11)).set("max_in_lg", 10u64).set("seed", ctx.case_seed("c06", i));
        run_case(ctx, &case);
    }
    for i in 0..(6 * scale) {
        let case = Json::obj().set("via", "C07").set("type", *rng.pick(&["i64", "u64", "String"])).set("n_sketches", rng.range(1, 4)).set("domain", 300u64).set("max_n", 2500u64).set("seed", ctx.case_seed("c07", i));
        run_case(ctx, &case);
    }
    for i in 0..(16 * scale) {
        let case = Json::obj()
            .set("via", "C08")
            .set("type", ["i8", "i16", "i32", "i64", "u8", "u16", "u32", "u64"][(i % 8) as usize])
            .set("num_hashes", rng.range(1, 8))
            .set("num_buckets", rng.range(3, 100))
            .set("domain", 60u64)
            .set("n_ops", 300u64)
            .set("seed", ctx.case_seed("c08", i));
        run_case(ctx, &case);
    }
    for i in 0..(30 * scale) {
        let case = Json::obj().set("via", "C09").set("lane", "history").set("num_bits", *rng.pick(&[1u64, 2, 63, 64, 65, 1000, 65536])).set("num_hashes", rng.range(1, 16)).set("n_ops", 200u64).set("seed", ctx.case_seed("c09", i));
        run_case(ctx, &case);
    }
    for i in 0..(6 * scale) {
        let shape = super::td_common::SHAPES[(i as usize + ctx.shard) % super::td_common::SHAPES.len()];
        let case = Json::obj().set("via", "C10").set("lane", "history").set("k", *rng.pick(&[10u64, 29, 100, 500])).set("shape", shape).set("n", 6000u64).set("nq", 150u64).set("seed", ctx.case_seed("c10", i));
        run_case(ctx, &case);
        let case = Json::obj().set("via", "C15").set("k", *rng.pick(&[10u64, 30, 200])).set("shape", shape).set("n", 20_000u64).set("merge_parts", rng.range(1, 8)).set("seed", ctx.case_seed("c15", i));
        run_case(ctx, &case);
    }
}

pub fn replay(ctx: &mut Ctx, case: &Json) {
    run_case(ctx, case);
}
