//! C06 — CPC union equals the OR of its inputs' bit matrices folded to the smallest lg_k.

use datasketches::common::NumStdDev;
use datasketches::cpc::{CpcSketch, CpcUnion, CpcWrapper};

use super::c05::check_cpc_state;
use crate::model::cpc::{self as m};
use crate::refhash;
use crate::rt::{self, rel_close, Ctx, Fp, Json, Rng};

pub struct CpcInput {
    pub sk: CpcSketch,
    pub lg_k: u8,
    pub matrix: Vec<u64>,
    pub desc: String,
}

fn sketch_from(lg_k: u8, coupons: &[u32], seed: u64) -> CpcSketch {
    let mut s = CpcSketch::with_seed(lg_k, seed);
    for &rc in coupons {
        s.verif_row_col_update(rc);
    }
    s
}

fn matrix_of(lg_k: u8, coupons: &[u32]) -> Vec<u64> {
    let mut mat = vec![0u64; 1usize << lg_k];
    for &rc in coupons {
        mat[(rc >> 6) as usize] |= 1u64 << (rc & 63);
    }
    mat
}

/// number of coupons that puts a sketch of this lg_k into the requested flavor (0..=4)
fn coupons_for_flavor(rng: &mut Rng, lg_k: u8, flavor: u8) -> u64 {
    let k = 1u64 << lg_k;
    let lo_hi = |f: u8| -> (u64, u64) {
        match f {
            0 => (0, 0),
            1 => (1, (3 * k).div_ceil(32).saturating_sub(1).max(1)),
            2 => ((3 * k).div_ceil(32), k / 2 - 1),
            3 => (k / 2, (27 * k) / 8 - 1),
            _ => ((27 * k).div_ceil(8), 12 * k),
        }
    };
    let (lo, hi) = lo_hi(flavor);
    if lo > hi {
        return lo;
    }
    // favour the boundaries
    match rng.below(4) {
        0 => lo,
        1 => hi,
        _ => rng.range(lo, hi),
    }
}

pub fn build_input(rng: &mut Rng, max_lg: u8) -> CpcInput {
    build_input_seeded(rng, max_lg, 9001)
}

/// All parties of a union share one hash seed; `seed` is the one of this history.
pub fn build_input_seeded(rng: &mut Rng, max_lg: u8, seed: u64) -> CpcInput {
    let lg_k = rng.range(4, max_lg as u64) as u8;
    let flavor = rng.below(5) as u8;
    let c = coupons_for_flavor(rng, lg_k, flavor).min(m::max_coupons_in_envelope(lg_k));
    let mut coupons = m::natural_order(rng, lg_k, c);
    let kind = rng.below(3);
    let (sk, how) = match kind {
        0 => (sketch_from(lg_k, &coupons, seed), "fresh"),
        1 => {
            let s = sketch_from(lg_k, &coupons, seed);
            let bytes = s.serialize();
            (CpcSketch::deserialize_with_seed(&bytes, seed).expect("round trip of a library-written CPC image failed"), "deserialized")
        }
        _ => {
            // two independent natural streams (each inside the envelope on its own), united
            let a = m::natural_order(rng, lg_k, c / 2);
            let b = m::natural_order(rng, lg_k, c - c / 2);
            let mut u = CpcUnion::with_seed(lg_k, seed);
            u.update(&sketch_from(lg_k, &a, seed));
            u.update(&sketch_from(lg_k, &b, seed));
            let mut all = a;
            all.extend(b);
            all.sort_unstable();
            all.dedup();
            coupons = all;
            (u.to_sketch(), "union-result")
        }
    };
    let actual_flavor = m::flavor(lg_k, coupons.len() as u64);
    CpcInput {
        sk,
        lg_k,
        matrix: matrix_of(lg_k, &coupons),
        desc: format!("lg_k={} C={} flavor={} {}", lg_k, coupons.len(), actual_flavor, how),
    }
}

pub struct CpcUnionModel {
    pub lg_k: u8,
    pub matrix: Vec<u64>,
    /// the hash seed shared by the union and its inputs
    pub seed: u64,
}

impl CpcUnionModel {
    pub fn new(lg_k: u8) -> Self {
        CpcUnionModel { lg_k, matrix: vec![0; 1usize << lg_k], seed: 9001 }
    }
    pub fn add(&mut self, lg_k: u8, matrix: &[u64]) {
        if matrix.iter().all(|w| *w == 0) {
            return; // empty inputs do not reduce k
        }
        let new_lg = self.lg_k.min(lg_k);
        if new_lg < self.lg_k {
            self.matrix = m::fold_matrix(&self.matrix, new_lg);
            self.lg_k = new_lg;
        }
        let folded = m::fold_matrix(matrix, new_lg);
        for (d, s) in self.matrix.iter_mut().zip(folded.iter()) {
            *d |= *s;
        }
    }
}

pub fn observe_union(ctx: &mut Ctx, u: &CpcUnion, model: &CpcUnionModel, what: &str) {
    let r = u.to_sketch();
    let c = model.matrix.iter().map(|w| w.count_ones() as u64).sum::<u64>();
    ctx.evals(1);
    if u.lg_k() != model.lg_k || r.lg_k() != model.lg_k {
        ctx.violation(
            "union lg_k != min(initial, lg_k of non-empty inputs)",
            format!("{}: union {} result {} want {}", what, u.lg_k(), r.lg_k(), model.lg_k),
        );
        return;
    }
    if u.num_coupons() as u64 != c {
        ctx.violation(
            "union num_coupons != popcount of the OR matrix",
            format!("{}: {} want {}", what, u.num_coupons(), c),
        );
    }
    check_cpc_state(ctx, &r, &model.matrix, None, what);
    let st = r.verif_state();
    if c > 0 && !st.merge_flag {
        ctx.violation("union result not marked as merged", format!("{}", what));
    }
    // the result's image: no HIP section; CpcWrapper agrees with the sketch
    let img = r.serialize();
    if c > 0 && img.len() > 5 && (img[5] >> 2) & 1 == 1 {
        ctx.violation("union result image carries HIP registers", format!("{}: flags {:02x}", what, img[5]));
    }
    match CpcSketch::deserialize_with_seed(&img, model.seed) {
        Ok(d) => {
            if d.verif_bit_matrix() != r.verif_bit_matrix() || d.num_coupons() != r.num_coupons() {
                ctx.violation("union result changes in a serialize/deserialize round trip", what.to_string());
            }
        }
        Err(e) => ctx.violation("union result's image does not read back with the union's seed", format!("{} seed {}: {}", what, model.seed, e)),
    }
    match CpcWrapper::new(&img) {
        Ok(w) => {
            let same = w.lg_k() == r.lg_k()
                && w.is_empty() == r.is_empty()
                && rel_close(w.estimate(), r.estimate(), 1e-12)
                && [NumStdDev::One, NumStdDev::Two, NumStdDev::Three].iter().all(|&s| {
                    rel_close(w.lower_bound(s), r.lower_bound(s), 1e-12) && rel_close(w.upper_bound(s), r.upper_bound(s), 1e-12)
                });
            if !same {
                ctx.violation(
                    "CpcWrapper on the result image disagrees with the result sketch",
                    format!("{}: wrapper est {} sketch est {}", what, w.estimate(), r.estimate()),
                );
            }
        }
        Err(e) => ctx.violation("CpcWrapper rejects the union result image", format!("{}: {}", what, e)),
    }
    if c > 0 {
        // ICON by its definition (the n whose expected coupon count is C) vs the library's approximation of it
        let want = crate::model::cpc::icon_reference(r.lg_k(), c);
        let dev = r.estimate() / want - 1.0;
        ctx.cover_max(&format!("icon_dev_lg_k_{:02}", r.lg_k()), dev.abs());
        if dev.abs() > icon_tolerance(r.lg_k(), c) {
            ctx.violation(
                "merged estimate is not the ICON value of (lg_k, C)",
                format!("{}: lg_k {} C {}: estimate {} but the n with E[C(n)] = C is {} (relative deviation {:+.2e})", what, r.lg_k(), c, r.estimate(), want, dev),
            );
        }
    }
    if c > 0 {
        let est = r.estimate();
        let lb = r.lower_bound(NumStdDev::One);
        let ub = r.upper_bound(NumStdDev::One);
        if !(est.is_finite() && est >= c as f64 * 0.999 && lb <= est * (1.0 + 1e-12) && est <= ub * (1.0 + 1e-12)) {
            ctx.violation(
                "union result estimate not >= coupon count / bounds not around it",
                format!("{}: C {} est {} lb {} ub {}", what, c, est, lb, ub),
            );
        }
    }
}

fn union_case(ctx: &mut Ctx, case: &Json) {
    let mut rng = Rng::new(case.u64("seed").unwrap_or(0));
    let lg_k0 = case.u64("lg_k").unwrap_or(8) as u8;
    let max_in_lg = case.u64("max_in_lg").unwrap_or(12) as u8;
    let n_in = rng.usize(0, 6);
    // a third of the histories use another hash seed than the default (shared by the union and all its inputs)
    let mut seed = if rng.chance(0.33) { *rng.pick(&[7u64, 0, u64::MAX, 0x5555_5555, 123_456_789]) } else { 9001 };
    if refhash::seed_hash(seed) == 0 {
        seed = 9001;
    }
    let mut u = CpcUnion::with_seed(lg_k0, seed);
    let mut model = CpcUnionModel::new(lg_k0);
    model.seed = seed;
    if seed != 9001 {
        ctx.cover("non_default_seed");
    }
    let mut inputs: Vec<CpcInput> = vec![];
    let mut log: Vec<String> = vec![];
    observe_union(ctx, &u, &model, &format!("lg_k={} fresh", lg_k0));
    for step in 0..n_in {
        let inp = build_input_seeded(&mut rng, max_in_lg, seed);
        u.update(&inp.sk);
        model.add(inp.lg_k, &inp.matrix);
        log.push(inp.desc.clone());
        ctx.cover(&format!("input_flavor_{}", m::flavor(inp.lg_k, inp.matrix.iter().map(|w| w.count_ones() as u64).sum())));
        inputs.push(inp);
        observe_union(ctx, &u, &model, &format!("lg_k={} step {} [{}]", lg_k0, step, log.join("; ")));
    }
    // order and repetition independence of the matrix
    if !inputs.is_empty() {
        let mut order: Vec<usize> = (0..inputs.len()).collect();
        let extra: Vec<usize> = (0..rng.usize(0, 3)).map(|_| rng.usize(0, inputs.len() - 1)).collect();
        order.extend(extra);
        rng.shuffle(&mut order);
        let mut u2 = CpcUnion::with_seed(lg_k0, seed);
        for &i in &order {
            u2.update(&inputs[i].sk);
        }
        observe_union(ctx, &u2, &model, &format!("lg_k={} permuted {:?} [{}]", lg_k0, order, log.join("; ")));
        let a = u.to_sketch().verif_bit_matrix();
        let b = u2.to_sketch().verif_bit_matrix();
        ctx.check(a == b && u.lg_k() == u2.lg_k(), "CPC union depends on input order or repetition", || {
            format!("lg_k={} order {:?} [{}]", lg_k0, order, log.join("; "))
        });
        ctx.cover("permutation_checks");
    }
    if ctx.samples.len() < 2 && n_in >= 2 {
        let steps: Vec<Json> = log.iter().map(|l| Json::Str(l.clone())).collect();
        ctx.sample(Json::obj().set("case", case.clone()).set("inputs", Json::Arr(steps)).set("result_lg_k", model.lg_k));
    }
    let mut fp = Fp::new();
    fp.u64(model.lg_k as u64);
    for w in model.matrix.iter().take(64) {
        fp.u64(*w);
    }
    fp.u64(case.u64("seed").unwrap_or(0));
    ctx.cover(&format!("union_lg_k_{}", lg_k0));
    ctx.end_case(fp.get(), model.matrix.iter().any(|w| *w != 0));
}

/// Tolerance of the library's ICON approximation against the definition of the estimator (the n whose expected
/// coupon count is C). The library uses a polynomial below C = 5.7 K and an exponential approximation above.
/// Calibration on the repaired tree (lg_k 4..16, every C from 1 to the end of the envelope on a 4 % grid): the
/// polynomial regime agrees to 2e-7, the exponential one to 9.3e-4 (worst right after the switch and at the very
/// end of the envelope, C = 59 K).
pub fn icon_tolerance(lg_k: u8, c: u64) -> f64 {
    if (c as f64) < 5.6 * (1u64 << lg_k) as f64 {
        2e-5
    } else {
        2e-3
    }
}

/// ICON lane: one natural coupon order per lg_k; at ~250 coupon counts from 1 to the end of the envelope the sketch
/// is put through a fresh union and the merged result's estimate is compared with the definition of ICON.
fn icon_case(ctx: &mut Ctx, case: &Json) {
    let lg_k = case.u64("lg_k").unwrap_or(8) as u8;
    let mut rng = Rng::new(case.u64("seed").unwrap_or(0));
    let c_max = m::max_coupons_in_envelope(lg_k).min(case.u64("c_max").unwrap_or(u64::MAX));
    let order = m::natural_order(&mut rng, lg_k, c_max);
    let mut s = CpcSketch::new(lg_k);
    let mut next = 1u64;
    let mut worst = 0.0f64;
    let mut worst_ratio = 0.0f64;
    let mut profile: Vec<Json> = vec![];
    for (i, &rc) in order.iter().enumerate() {
        s.verif_row_col_update(rc);
        let c = (i + 1) as u64;
        if c == next || c == c_max {
            next = (next + 1).max(next * 26 / 25);
            let mut u = CpcUnion::new(lg_k);
            u.update(&s);
            let r = u.to_sketch();
            ctx.evals(1);
            if r.num_coupons() as u64 != c {
                ctx.violation("union num_coupons != popcount of the OR matrix", format!("icon lane lg_k {}: {} want {}", lg_k, r.num_coupons(), c));
                break;
            }
            let want = m::icon_reference(lg_k, c);
            let dev = r.estimate() / want - 1.0;
            worst = worst.max(dev.abs());
            worst_ratio = worst_ratio.max(dev.abs() / icon_tolerance(lg_k, c));
            if profile.len() < 40 && (c == 1 || c * 8 / (1u64 << lg_k) != (c - 1) * 8 / (1u64 << lg_k) && profile.len() < 40 && c % 3 != 1) {
                profile.push(Json::obj().set("lg_k", lg_k).set("c_over_k", c as f64 / (1u64 << lg_k) as f64).set("deviation", (dev * 1e7).round() / 1e7));
            }
            if dev.abs() > icon_tolerance(lg_k, c) {
                ctx.violation(
                    "merged estimate is not the ICON value of (lg_k, C)",
                    format!("lg_k {} C {}: estimate {} but the n with E[C(n)] = C is {} (relative deviation {:+.2e}, tolerance {:.1e})", lg_k, c, r.estimate(), want, dev, icon_tolerance(lg_k, c)),
                );
                break;
            }
        }
    }
    ctx.note("list:icon_profile", Json::Arr(profile));
    ctx.cover_max(&format!("icon_dev_lg_k_{:02}", lg_k), worst);
    ctx.cover_max("icon_worst_deviation_over_tolerance", worst_ratio);
    ctx.cover(&format!("icon_lane_lg_k_{:02}", lg_k));
    let mut fp = Fp::new();
    fp.u64(lg_k as u64);
    fp.u64(c_max);
    fp.u64(case.u64("seed").unwrap_or(0));
    ctx.end_case(fp.get(), true);
}

pub fn run_case(ctx: &mut Ctx, case: &Json) {
    ctx.begin_case(case.clone());
    let r = rt::guard(|| if case.str("lane") == Some("icon") { icon_case(ctx, case) } else { union_case(ctx, case) });
    if let Err(p) = r {
        ctx.panic_violation("CpcUnion", &p);
    }
}

pub fn run(ctx: &mut Ctx) {
    ctx.note(
        "rule",
        Json::Str(
            "one case = one union history: union lg_k 4..=12, 0..6 inputs over lg_k 4..=12 x {empty, sparse, hybrid, \
             pinned, sliding} (exact flavor through the coupon count, boundaries favoured) x {fresh, deserialized, itself \
             a union result}; to_sketch after every step compared with the OR of the folded model matrices plus all \
             C05 structural invariants; then a permuted/repeated replay. distinct = fingerprint of (lg_k, result \
             matrix, seed); non-trivial = non-empty result"
                .into(),
        ),
    );
    // ICON lane: one lg_k per shard
    {
        let top = ctx.tier_pick(12u8, 16);
        for lg_k in 4..=26u8 {
            if (lg_k as usize) % ctx.nshards != ctx.shard {
                continue;
            }
            // the whole envelope up to `top`; above, a prefix (the coefficients of the approximation are per lg_k)
            let c_max = if lg_k <= top {
                u64::MAX
            } else if ctx.quick() {
                if [15u8, 20, 26].contains(&lg_k) { 40_000 } else { continue }
            } else {
                400_000
            };
            let case = Json::obj().set("lane", "icon").set("lg_k", lg_k).set("c_max", c_max).set("seed", ctx.case_seed("icon", lg_k as u64));
            run_case(ctx, &case);
        }
    }
    let n = ctx.tier_pick(600u64, 100_000);
    let mut rng = ctx.rng("cases");
    for i in 0..n {
        let lg_k = rng.range(4, 12);
        let max_in = if rng.chance(0.7) { 10 } else { 12 };
        let case = Json::obj().set("lane", "union").set("lg_k", lg_k).set("max_in_lg", max_in).set("seed", ctx.case_seed("union", i));
        run_case(ctx, &case);
    }
}

pub fn replay(ctx: &mut Ctx, case: &Json) {
    run_case(ctx, case);
}
