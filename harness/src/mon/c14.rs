//! C14 — malformed bytes yield an error, never a panic, abort or runaway allocation; and any value
//! returned as Ok can be queried, updated, merged and re-serialized without panicking.

use datasketches::bloom::{BloomFilter, BloomFilterBuilder};
use datasketches::common::NumStdDev;
use datasketches::countmin::CountMinSketch;
use datasketches::cpc::{CpcSketch, CpcUnion, CpcWrapper};
use datasketches::frequencies::{ErrorType, FrequentItemsSketch};
use datasketches::hll::{HllSketch, HllType, HllUnion};
use datasketches::tdigest::TDigestMut;
use datasketches::theta::CompactThetaSketch;

use super::c07::Item as FiItem;
use super::c08::Cm;
use super::c10::{synth_image, IMAGE_CLASSES};
use super::ser::{gen_cpc, gen_hll};
use crate::refhash;
use crate::rt::{self, json::hex, json::unhex, AllocStats, Ctx, Fp, Json, PanicRec, Rng};
use crate::spec::{self, Fields};

/// requests above this are refused while a call is monitored (and are an event of their own)
const HARD_CAP: usize = 64 << 20;

fn proportion_limit(len: usize, retained: i64) -> usize {
    (1usize << 20) + 64 * (len + retained.max(0) as usize)
}

pub const ENTRIES: [&str; 20] = [
    "HllSketch::deserialize",
    "CompactThetaSketch::deserialize",
    "CompactThetaSketch::deserialize_with_seed",
    "CpcSketch::deserialize",
    "CpcSketch::deserialize_with_seed",
    "CpcWrapper::new",
    "BloomFilter::deserialize",
    "CountMinSketch<i8>::deserialize",
    "CountMinSketch<i16>::deserialize",
    "CountMinSketch<i32>::deserialize",
    "CountMinSketch<i64>::deserialize",
    "CountMinSketch<u8>::deserialize",
    "CountMinSketch<u16>::deserialize",
    "CountMinSketch<u32>::deserialize",
    "CountMinSketch<u64>::deserialize",
    "FrequentItemsSketch<i64>::deserialize",
    "FrequentItemsSketch<u64>::deserialize",
    "FrequentItemsSketch<String>::deserialize",
    "TDigestMut::deserialize(f64)",
    "TDigestMut::deserialize(f32)",
];

fn family_entries(fam: &str) -> &'static [usize] {
    match fam {
        "hll" => &[0],
        "theta" => &[1, 2],
        "cpc" => &[3, 4, 5],
        "bloom" => &[6],
        "countmin" => &[7, 8, 9, 10, 11, 12, 13, 14],
        "frequent" => &[15, 16, 17],
        _ => &[18, 19],
    }
}

const ALT_SEED: u64 = 123_456_789;

enum Parsed {
    Hll(HllSketch),
    Theta(CompactThetaSketch),
    Cpc(CpcSketch, u64),
    Wrapper(CpcWrapper),
    Bloom(BloomFilter),
    CmI8(CountMinSketch<i8>),
    CmI16(CountMinSketch<i16>),
    CmI32(CountMinSketch<i32>),
    CmI64(CountMinSketch<i64>),
    CmU8(CountMinSketch<u8>),
    CmU16(CountMinSketch<u16>),
    CmU32(CountMinSketch<u32>),
    CmU64(CountMinSketch<u64>),
    FiI64(FrequentItemsSketch<i64>),
    FiU64(FrequentItemsSketch<u64>),
    FiStr(FrequentItemsSketch<String>),
    Td(TDigestMut),
}

fn parse(entry: usize, b: &[u8]) -> Result<Parsed, ()> {
    Ok(match entry {
        0 => Parsed::Hll(HllSketch::deserialize(b).map_err(|_| ())?),
        1 => Parsed::Theta(CompactThetaSketch::deserialize(b).map_err(|_| ())?),
        2 => Parsed::Theta(CompactThetaSketch::deserialize_with_seed(b, ALT_SEED).map_err(|_| ())?),
        3 => Parsed::Cpc(CpcSketch::deserialize(b).map_err(|_| ())?, 9001),
        4 => Parsed::Cpc(CpcSketch::deserialize_with_seed(b, ALT_SEED).map_err(|_| ())?, ALT_SEED),
        5 => Parsed::Wrapper(CpcWrapper::new(b).map_err(|_| ())?),
        6 => Parsed::Bloom(BloomFilter::deserialize(b).map_err(|_| ())?),
        7 => Parsed::CmI8(CountMinSketch::deserialize(b).map_err(|_| ())?),
        8 => Parsed::CmI16(CountMinSketch::deserialize(b).map_err(|_| ())?),
        9 => Parsed::CmI32(CountMinSketch::deserialize(b).map_err(|_| ())?),
        10 => Parsed::CmI64(CountMinSketch::deserialize(b).map_err(|_| ())?),
        11 => Parsed::CmU8(CountMinSketch::deserialize(b).map_err(|_| ())?),
        12 => Parsed::CmU16(CountMinSketch::deserialize(b).map_err(|_| ())?),
        13 => Parsed::CmU32(CountMinSketch::deserialize(b).map_err(|_| ())?),
        14 => Parsed::CmU64(CountMinSketch::deserialize(b).map_err(|_| ())?),
        15 => Parsed::FiI64(FrequentItemsSketch::deserialize(b).map_err(|_| ())?),
        16 => Parsed::FiU64(FrequentItemsSketch::deserialize(b).map_err(|_| ())?),
        17 => Parsed::FiStr(FrequentItemsSketch::deserialize(b).map_err(|_| ())?),
        18 => Parsed::Td(TDigestMut::deserialize(b, false).map_err(|_| ())?),
        _ => Parsed::Td(TDigestMut::deserialize(b, true).map_err(|_| ())?),
    })
}

const SDS: [NumStdDev; 3] = [NumStdDev::One, NumStdDev::Two, NumStdDev::Three];

fn post_cm<T: Cm>(mut s: CountMinSketch<T>) {
    let _ = (s.estimate(1u64), s.lower_bound(2u64), s.upper_bound(3u64), s.is_empty(), s.relative_error());
    // updating presupposes that the total stays inside the counter type (documented precondition)
    if s.total_weight().to_i() < T::MAXV / 2 && s.total_weight().to_i() >= 0 {
        s.update(5u64);
        if (s.num_hashes() as u64) * (s.num_buckets() as u64) < 1 << 22 {
            let mut o: CountMinSketch<T> = CountMinSketch::with_seed(s.num_hashes(), s.num_buckets(), s.seed());
            o.update(9u64);
            s.merge(&o);
        }
    }
    let img = s.serialize();
    let _ = CountMinSketch::<T>::deserialize_with_seed(&img, s.seed());
}

fn post_fi<T: FiItem>(mut s: FrequentItemsSketch<T>) {
    let probe = T::make(3, 1);
    let _ = (s.estimate(&probe), s.lower_bound(&probe), s.upper_bound(&probe), s.maximum_error(), s.total_weight(), s.is_empty(), s.num_active_items());
    let _ = s.frequent_items(ErrorType::NoFalsePositives).len() + s.frequent_items(ErrorType::NoFalseNegatives).len();
    // updating presupposes that the stream weight does not overflow u64 (documented precondition)
    if s.total_weight() < 1 << 62 && s.maximum_error() < 1 << 62 {
        for i in 0..40 {
            s.update(T::make(i, 1));
        }
        let mut o: FrequentItemsSketch<T> = FrequentItemsSketch::new(8);
        for i in 0..9 {
            o.update_with_count(T::make(i, 2), 3);
        }
        s.merge(&o);
        o.merge(&s);
    }
    let img = s.serialize();
    let _ = FrequentItemsSketch::<T>::deserialize(&img);
}

/// Everything a user may do with a value that was returned as Ok.
fn post(p: Parsed) {
    match p {
        Parsed::Hll(mut s) => {
            let _ = (s.estimate(), s.is_empty(), s.lg_config_k(), s.target_type());
            for sd in SDS {
                let _ = (s.lower_bound(sd), s.upper_bound(sd));
            }
            let img = s.serialize();
            let _ = HllSketch::deserialize(&img);
            let mut u = HllUnion::new(s.lg_config_k().clamp(4, 21));
            u.update(&s);
            let mut other = HllSketch::new(s.lg_config_k().clamp(4, 21), HllType::Hll6);
            for i in 0..300u64 {
                other.update(i);
            }
            u.update(&other);
            let _ = u.to_sketch(HllType::Hll4).estimate();
            for i in 0..600u64 {
                s.update(i);
            }
            let _ = s.estimate();
            // every register receives a high value (some item hashes there): exercises the exception
            // bookkeeping of every slot, not only of the slots 600 hashed items happen to reach
            if s.lg_config_k() <= 12 {
                let k = 1u32 << s.lg_config_k();
                for v in [17u8, 40, 63] {
                    for slot in 0..k {
                        s.verif_update_with_coupon(((v as u32) << 26) | slot);
                    }
                }
                let _ = s.estimate();
            }
            let _ = s.serialize();
        }
        Parsed::Theta(c) => {
            let _ = (c.estimate(), c.theta(), c.theta64(), c.is_empty(), c.is_ordered(), c.is_estimation_mode(), c.num_retained(), c.seed_hash());
            for sd in SDS {
                let _ = (c.lower_bound(sd), c.upper_bound(sd));
            }
            let _ = c.iter().fold(0u64, |a, b| a ^ b);
            let a = c.serialize();
            let b = c.serialize_compressed();
            let _ = CompactThetaSketch::deserialize(&a);
            let _ = CompactThetaSketch::deserialize(&b);
        }
        Parsed::Cpc(mut s, seed) => {
            let _ = (s.estimate(), s.is_empty(), s.lg_k(), s.num_coupons());
            for sd in SDS {
                let _ = (s.lower_bound(sd), s.upper_bound(sd));
            }
            if s.lg_k() <= 16 {
                let _ = s.validate();
                let img = s.serialize();
                let _ = CpcSketch::deserialize_with_seed(&img, seed);
                let mut u = CpcUnion::with_seed(s.lg_k(), seed);
                u.update(&s);
                let mut o = CpcSketch::with_seed(s.lg_k().min(10), seed);
                for i in 0..500u64 {
                    o.update(i);
                }
                u.update(&o);
                let _ = u.to_sketch().estimate();
                for i in 0..500u64 {
                    s.update(i);
                }
                let _ = s.serialize();
            }
        }
        Parsed::Wrapper(w) => {
            let _ = (w.estimate(), w.is_empty(), w.lg_k());
            for sd in SDS {
                let _ = (w.lower_bound(sd), w.upper_bound(sd));
            }
        }
        Parsed::Bloom(mut f) => {
            let _ = (f.contains(&1u64), f.bits_used(), f.capacity(), f.is_empty(), f.load_factor(), f.estimated_fpp(), f.num_hashes());
            f.insert(7u64);
            let _ = f.contains_and_insert(&8u64);
            // the stored bit count is used as it was read until an operation recounts it (union / intersect do):
            // inverting twice right after the inserts exercises it while it is still the stored one
            f.invert();
            for x in 100u64..164 {
                f.insert(x);
            }
            f.invert();
            let _ = (f.bits_used(), f.load_factor(), f.estimated_fpp(), f.is_empty());
            if f.capacity() <= 1 << 24 {
                let mut o = BloomFilterBuilder::with_size(f.capacity() as u64, f.num_hashes()).seed(f.seed()).build();
                o.insert(9u64);
                if f.is_compatible(&o) {
                    f.union(&o);
                    f.intersect(&o);
                }
                f.invert();
                let img = f.serialize();
                let _ = BloomFilter::deserialize(&img);
                f.reset();
            }
        }
        Parsed::CmI8(s) => post_cm(s),
        Parsed::CmI16(s) => post_cm(s),
        Parsed::CmI32(s) => post_cm(s),
        Parsed::CmI64(s) => post_cm(s),
        Parsed::CmU8(s) => post_cm(s),
        Parsed::CmU16(s) => post_cm(s),
        Parsed::CmU32(s) => post_cm(s),
        Parsed::CmU64(s) => post_cm(s),
        Parsed::FiI64(s) => post_fi(s),
        Parsed::FiU64(s) => post_fi(s),
        Parsed::FiStr(s) => post_fi(s),
        Parsed::Td(mut d) => {
            let _ = (d.is_empty(), d.total_weight(), d.min_value(), d.max_value(), d.k());
            let _ = d.quantile(0.0);
            let _ = d.quantile(0.5);
            let _ = d.quantile(1.0);
            if let (Some(a), Some(b)) = (d.min_value(), d.max_value()) {
                let _ = d.rank(a);
                let _ = d.rank(b);
                let _ = d.rank(a / 2.0 + b / 2.0);
                if a < b {
                    let _ = d.cdf(&[a, b]);
                    let _ = d.pmf(&[a, b]);
                }
            }
            let _ = d.cdf(&[]);
            let img = d.serialize();
            let _ = TDigestMut::deserialize(&img, false);
            if d.total_weight() < 1 << 62 {
                for i in 0..50 {
                    d.update(i as f64);
                }
                let mut o = TDigestMut::new(d.k().max(10));
                o.update(1.0);
                o.update(2.0);
                o.merge(&d);
                d.merge(&o);
                let _ = d.quantile(0.3);
                let _ = d.clone().freeze().rank(1.5);
            }
        }
    }
}

pub enum Verdict {
    Fine,
    /// (signature fragment, message)
    Bad(String, String),
}

/// A legitimately large configuration: an *empty* Bloom / Count-Min image declares its table size in the
/// preamble, and allocating that table is what Ok requires (not "out of proportion").
fn legit_large_table(entry: usize, b: &[u8], request: usize) -> bool {
    match entry {
        6 => {
            if b.len() >= 24 {
                let words = i32::from_le_bytes(b[16..20].try_into().unwrap());
                words > 0 && request == words as usize * 8
            } else {
                false
            }
        }
        7..=14 => {
            if b.len() >= 16 {
                let buckets = u32::from_le_bytes(b[8..12].try_into().unwrap()) as usize;
                let hashes = b[12] as usize;
                let width = [1usize, 2, 4, 8, 1, 2, 4, 8][entry - 7];
                request == buckets * hashes * width || request == hashes * 8
            } else {
                false
            }
        }
        15..=17 => {
            // the map is allocated at 1 << lgCurMapSize cells (keys, values, states) as the preamble says
            if b.len() >= 8 && b[4] <= b[3] && b[4] <= 31 {
                let cells = 1usize << b[4];
                [2usize, 8, 16, 24, 32].iter().any(|w| request == cells * w)
            } else {
                false
            }
        }
        _ => false,
    }
}

fn alloc_request_of(p: &PanicRec) -> Option<usize> {
    p.msg.strip_prefix("allocation of ").and_then(|r| r.split(' ').next()).and_then(|n| n.parse().ok())
}

/// Run one input against one entry point under the monitors.
pub fn judge(entry: usize, b: &[u8], ctx: &mut Ctx) -> Verdict {
    let name = ENTRIES[entry];
    ctx.evals(1);
    // from here until the verdict the call is "in flight" for the hang watchdog (parse and post phase)
    rt::hang::arm(name, b);
    let v = judge_armed(entry, b, ctx);
    rt::hang::disarm();
    v
}

/// Seconds after which a single deserialize call (plus the post phase on its result) that has not returned is
/// written out as a witness. Inputs are at most a few hundred KiB and a call takes microseconds; the driver
/// replays the witness alone before calling it a violation.
pub const HANG_LIMIT_S: u64 = 20;

pub fn start_hang_watchdog(ctx: &Ctx) {
    let out = match &ctx.out_path {
        Some(p) => format!("{}.hang.json", p),
        None => return,
    };
    let _ = std::fs::remove_file(&out);
    let profile = ctx.profile.clone();
    rt::hang::start_watchdog(std::time::Duration::from_secs(HANG_LIMIT_S), move |entry, input, secs| {
        let j = Json::obj()
            .set("property", "C14")
            .set("signature", format!("C14 | does not return | {}", entry).as_str())
            .set("message", format!("{} on a {}-byte input (and the use of its result) was still running after {} s", entry, input.len(), secs).as_str())
            .set("case", Json::obj().set("lane", "replay").set("entry", entry).set("hex", rt::json::hex(input).as_str()).set("profile", profile.as_str()));
        let _ = std::fs::write(&out, j.dump());
    });
}

fn judge_armed(entry: usize, b: &[u8], ctx: &mut Ctx) -> Verdict {
    let name = ENTRIES[entry];
    let (res, st): (Result<Result<Parsed, ()>, PanicRec>, AllocStats) = rt::with_alloc_monitor(HARD_CAP, || rt::guard(|| parse(entry, b)));
    match res {
        Err(p) => {
            if let Some(req) = alloc_request_of(&p) {
                if legit_large_table(entry, b, req) {
                    ctx.cover("legitimately_large_configuration");
                    return Verdict::Fine;
                }
                let f = if p.func.is_empty() { "?".to_string() } else { p.func.clone() };
                return Verdict::Bad(
                    format!("runaway allocation | {} | {}", name, f),
                    format!("a {}-byte input made {} request {} bytes in one allocation (refused by the monitor) in {}", b.len(), name, req, f),
                );
            }
            if !p.in_library {
                ctx.inconclusive(format!("harness panic in {}: {} at {}:{}", name, p.msg, p.file, p.line));
                return Verdict::Fine;
            }
            Verdict::Bad(format!("panic | {} | {}", name, p.signature()), format!("panic at {}:{}: {}", p.file, p.line, p.msg))
        }
        Ok(Err(())) => {
            ctx.cover("outcome_err");
            if st.max_request > proportion_limit(b.len(), 0) || st.peak_live as usize > 8 * proportion_limit(b.len(), 0) {
                // find the requesting function: run again with the cap at the limit so that the request is refused
                let (again, _) = rt::with_alloc_monitor(proportion_limit(b.len(), 0), || rt::guard(|| parse(entry, b).is_ok()));
                let f = match again {
                    Err(p) if !p.func.is_empty() => p.func,
                    _ => "?".to_string(),
                };
                return Verdict::Bad(
                    format!("allocation out of proportion | {} | {}", name, f),
                    format!("a {}-byte input was rejected by {} only after a single allocation of {} bytes (peak {} bytes) in {}", b.len(), name, st.max_request, st.peak_live, f),
                );
            }
            Verdict::Fine
        }
        Ok(Ok(v)) => {
            ctx.cover("outcome_ok");
            if st.max_request > proportion_limit(b.len(), st.retained) {
                if !legit_large_table(entry, b, st.max_request) {
                    return Verdict::Bad(
                        format!("allocation out of proportion | {} | Ok", name),
                        format!("a {}-byte input made {} allocate {} bytes at once while the returned value retains {} bytes", b.len(), name, st.max_request, st.retained),
                    );
                }
            }
            // post phase: the value must be usable
            let (r2, _) = rt::with_alloc_monitor(HARD_CAP * 8, || rt::guard(|| post(v)));
            match r2 {
                Ok(()) => Verdict::Fine,
                Err(p) => {
                    if alloc_request_of(&p).is_some() {
                        // a large but legitimate configuration: using it needs memory the monitor refuses; not judged
                        ctx.cover("post_phase_skipped_large_configuration");
                        return Verdict::Fine;
                    }
                    if !p.in_library {
                        ctx.inconclusive(format!("harness panic after {}: {} at {}:{}", name, p.msg, p.file, p.line));
                        return Verdict::Fine;
                    }
                    Verdict::Bad(format!("Ok value panics when used | {} | {}", name, p.signature()), format!("panic at {}:{}: {}", p.file, p.line, p.msg))
                }
            }
        }
    }
}

// ------------------------------------------------------------------------------------------------
// seed corpus

pub struct Seed {
    pub fam: &'static str,
    pub bytes: Vec<u8>,
    pub fields: Fields,
}

fn mk(fam: &'static str, bytes: Vec<u8>) -> Seed {
    let fields = match fam {
        "hll" => spec::hll::decode(&bytes).map(|x| x.1).unwrap_or_default(),
        "theta" => spec::theta::decode(&bytes).map(|x| x.1).unwrap_or_default(),
        "cpc" => spec::cpc::decode(&bytes).map(|x| x.1).unwrap_or_default(),
        "bloom" => spec::small::decode_bloom(&bytes).map(|x| x.1).unwrap_or_default(),
        "countmin" => spec::small::decode_cm(&bytes).map(|x| x.1).unwrap_or_default(),
        "frequent" => spec::small::decode_fi(&bytes, false).or_else(|_| spec::small::decode_fi(&bytes, true)).map(|x| x.1).unwrap_or_default(),
        _ => spec::tdigest::decode_native(&bytes, false).or_else(|_| spec::tdigest::decode_native(&bytes, true)).map(|x| x.1).unwrap_or_default(),
    };
    Seed { fam, bytes, fields }
}

pub fn build_corpus(rng: &mut Rng) -> Vec<Seed> {
    let mut c = vec![];
    // HLL: library images of every mode, and spec-encoded compact/updatable variants
    for _ in 0..14 {
        let (sk, model, _) = gen_hll(rng, 9);
        c.push(mk("hll", sk.serialize()));
        if rng.chance(0.5) {
            let st = sk.verif_state();
            let im = if st.mode == 2 {
                spec::hll::HllImage::array(st.lg_k, st.target_bits, model.regs.clone(), sk.estimate(), rng.chance(0.3))
            } else {
                spec::hll::HllImage::sparse(st.lg_k, st.target_bits, model.coupons.iter().copied().collect())
            };
            c.push(mk("hll", spec::hll::encode(&im, false)));
        }
    }
    // HLL coupon tables at and beyond their load limit: well-formed headers and distinct, valid coupons, but more of
    // them than a table of that size may hold (full, one short of full, one above 3/4) -- plausible seeds that no
    // writer emits; they are judged as they are and mutated like the others
    for (lg_k, lg_arr, count, compact) in [(12u8, 5u8, 32usize, false), (12, 5, 31, false), (12, 5, 25, false), (10, 5, 32, true), (12, 6, 64, false), (9, 5, 32, false)] {
        let tgt = (count % 3) as u8;
        let mut b = vec![3u8, 1, 7, lg_k, lg_arr, if compact { 8 } else { 0 }, 0, 1 | (tgt << 2)];
        b.extend((count as u32).to_le_bytes());
        let cells = if compact { count } else { 1usize << lg_arr };
        for i in 0..cells {
            let coupon = if i < count { (((i % 5) as u32 + 1) << 26) | ((i as u32 * 37 + 5) & ((1 << lg_k) - 1)) } else { 0 };
            b.extend(coupon.to_le_bytes());
        }
        c.push(mk("hll", b));
    }
    // theta: v1..v4
    for i in 0..12 {
        let n = [0usize, 1, 2, 7, 8, 9, 30, 200][i % 8];
        let estimating = i % 3 == 0 && n > 0;
        let theta = if estimating { spec::theta::MAX_THETA / 3 } else { spec::theta::MAX_THETA };
        let mut e: Vec<u64> = (0..n).map(|_| 1 + rng.below(theta - 2)).collect();
        e.sort_unstable();
        e.dedup();
        for ver in [1u8, 2, 3, 4] {
            if ver == 4 && (e.is_empty() || (e.len() == 1 && !estimating)) {
                continue;
            }
            let seed = if i % 4 == 0 { ALT_SEED } else { 9001 };
            let v = spec::theta::ThetaVariant { ser_ver: ver, unordered: i % 5 == 0, java_p: i % 2 == 0, single_flag: i % 2 == 1 };
            c.push(mk("theta", spec::theta::encode(theta, &e, e.is_empty() && !estimating, refhash::seed_hash(seed), v)));
        }
    }
    // CPC: every flavor
    for _ in 0..12 {
        let (sk, _, _, _) = gen_cpc(rng, 8);
        c.push(mk("cpc", sk.serialize()));
    }
    // Bloom
    for i in 0..6 {
        let mut f = BloomFilterBuilder::with_size([1u64, 64, 100, 1000, 5000, 640][i], (i + 1) as u16).seed(9001 + i as u64).build();
        for j in 0..(i * 7) as u64 {
            f.insert(j);
        }
        c.push(mk("bloom", f.serialize()));
        let words: Vec<u64> = (0..3).map(|_| rng.next_u64()).collect();
        c.push(mk("bloom", spec::small::encode_bloom(3, 1, &words, true, true)));
    }
    // Count-Min
    for i in 0..6u32 {
        let mut s: CountMinSketch<u32> = CountMinSketch::new((i % 4 + 1) as u8, 3 + i * 5);
        for j in 0..(i * 9) as u64 {
            s.update(j);
        }
        c.push(mk("countmin", s.serialize()));
    }
    let mut s: CountMinSketch<i8> = CountMinSketch::new(2, 4);
    s.update(1u64);
    c.push(mk("countmin", s.serialize()));
    // Frequent items
    for i in 0..6usize {
        let mut a: FrequentItemsSketch<i64> = FrequentItemsSketch::new(8 << (i % 3));
        let mut b: FrequentItemsSketch<String> = FrequentItemsSketch::new(8 << (i % 3));
        for j in 0..(i * 11) as i64 {
            a.update_with_count(j % 13, 1 + (j % 3) as u64);
            b.update(format!("s{}", j % 13));
        }
        c.push(mk("frequent", a.serialize()));
        c.push(mk("frequent", b.serialize()));
    }
    // t-digest: native double/float, reference encodings, buffered values, empty, single
    for i in 0..10usize {
        let im = synth_image(rng, IMAGE_CLASSES[i % IMAGE_CLASSES.len()], [10u16, 100, 200][i % 3]);
        c.push(mk("tdigest", spec::tdigest::encode_native(&im, false)));
        c.push(mk("tdigest", spec::tdigest::encode_native(&im, true)));
        if im.buffered.is_empty() {
            c.push(mk("tdigest", spec::tdigest::encode_ref_double(&im)));
            c.push(mk("tdigest", spec::tdigest::encode_ref_float(&im)));
        }
    }
    let mut d = TDigestMut::new(50);
    c.push(mk("tdigest", d.serialize()));
    d.update(3.0);
    c.push(mk("tdigest", d.serialize()));
    c
}

// ------------------------------------------------------------------------------------------------
// mutators

fn boundary_values(orig: u64, bits: u32, rng: &mut Rng) -> u64 {
    let max = if bits >= 64 { u64::MAX } else { (1u64 << bits) - 1 };
    let j = rng.below(bits.max(1) as u64) as u32;
    let v = match rng.below(12) {
        0 => 0,
        1 => 1,
        2 => max,
        3 => max - 1,
        4 => orig.wrapping_add(1),
        5 => orig.wrapping_sub(1),
        6 => 1u64 << j.min(63),
        7 => (1u64 << j.min(63)).wrapping_add(1),
        8 => (1u64 << j.min(63)).wrapping_sub(1),
        9 => max >> 1,
        10 => (max >> 1) + 1,
        _ => rng.next_u64(),
    };
    v & max
}

pub fn mutate(rng: &mut Rng, corpus: &[Seed], si: usize) -> (Vec<u8>, &'static str) {
    let s = &corpus[si];
    let mut b = s.bytes.clone();
    let kind = rng.below(100);
    if kind < 30 && !s.fields.is_empty() {
        // field-aware: boundary values in a length / count / lg / flag / version field
        let small: Vec<&(usize, usize, &'static str)> = s.fields.iter().filter(|f| f.1 <= 8).collect();
        let n = if rng.chance(0.2) { 2 } else { 1 };
        for _ in 0..n {
            let f = if rng.chance(0.7) {
                // preamble fields come first and matter most
                small[rng.usize(0, (small.len() - 1).min(14))]
            } else {
                *rng.pick(&small)
            };
            let (off, len) = (f.0, f.1);
            if off + len > b.len() {
                continue;
            }
            let mut w = [0u8; 8];
            w[..len].copy_from_slice(&b[off..off + len]);
            let orig = u64::from_le_bytes(w);
            let v = boundary_values(orig, (len * 8) as u32, rng);
            b[off..off + len].copy_from_slice(&v.to_le_bytes()[..len]);
        }
        return (b, "field");
    }
    if kind < 45 {
        for _ in 0..rng.usize(1, 4) {
            if b.is_empty() {
                break;
            }
            let i = if rng.chance(0.6) { rng.usize(0, (b.len() - 1).min(40)) } else { rng.usize(0, b.len() - 1) };
            b[i] ^= 1 << rng.below(8);
        }
        return (b, "bitflip");
    }
    if kind < 58 {
        for _ in 0..rng.usize(1, 3) {
            if b.is_empty() {
                break;
            }
            let i = if rng.chance(0.6) { rng.usize(0, (b.len() - 1).min(40)) } else { rng.usize(0, b.len() - 1) };
            b[i] = *rng.pick(&[0u8, 1, 2, 3, 4, 7, 8, 15, 16, 21, 26, 27, 31, 32, 63, 64, 127, 128, 200, 240, 254, 255]);
        }
        return (b, "byteset");
    }
    if kind < 66 && b.len() >= 16 {
        // payload words replaced by random words (compressed streams, packed registers, tables): the header
        // stays valid, so the decoder runs deep into the payload with arbitrary codes
        for _ in 0..rng.usize(1, 3) {
            let words = b.len() / 4;
            let w = rng.usize(2, words - 1);
            let v = match rng.below(4) {
                0 => rng.next_u32(),
                1 => rng.next_u32() | 0x1ff,           // long runs of ones: the rare long codes
                2 => rng.next_u32() & rng.next_u32(),
                _ => u32::MAX >> rng.below(32),
            };
            b[4 * w..4 * w + 4].copy_from_slice(&v.to_le_bytes());
        }
        return (b, "payload-words");
    }
    if kind < 72 {
        let cut = rng.usize(0, b.len());
        b.truncate(cut);
        return (b, "truncate");
    }
    if kind < 78 {
        let extra = rng.usize(1, 24);
        b.extend(rng.bytes(extra));
        return (b, "extend");
    }
    if kind < 86 {
        // splice with another image of the same or another family
        let o = &corpus[rng.usize(0, corpus.len() - 1)].bytes;
        let cut = rng.usize(0, b.len());
        let ocut = rng.usize(0, o.len());
        b.truncate(cut);
        b.extend_from_slice(&o[ocut..]);
        return (b, "splice");
    }
    if kind < 94 {
        // random bytes behind a valid three-byte header
        let keep = rng.usize(3, 8).min(b.len());
        b.truncate(keep);
        let extra = rng.usize(0, 64);
        b.extend(rng.bytes(extra));
        return (b, "random-tail");
    }
    let n = rng.usize(0, 64);
    (rng.bytes(n), "random")
}

/// Shrink a failing input while it keeps producing the same signature.
fn minimize(entry: usize, input: &[u8], sig: &str, ctx: &mut Ctx) -> Vec<u8> {
    let mut best = input.to_vec();
    let same = |cand: &[u8], ctx: &mut Ctx| -> bool { matches!(judge(entry, cand, ctx), Verdict::Bad(s, _) if s == sig) };
    let mut budget = 300;
    // truncate from the end
    let mut step = best.len() / 2;
    while step >= 1 && budget > 0 {
        if best.len() > step {
            let cand = best[..best.len() - step].to_vec();
            budget -= 1;
            if same(&cand, ctx) {
                best = cand;
                continue;
            }
        }
        step /= 2;
    }
    // zero bytes from the back
    let mut i = best.len();
    while i > 0 && budget > 0 {
        i -= 1;
        if best[i] != 0 {
            let old = best[i];
            best[i] = 0;
            budget -= 1;
            if !same(&best, ctx) {
                best[i] = old;
            }
        }
    }
    best
}

fn report(ctx: &mut Ctx, entry: usize, input: &[u8], sig: String, msg: String, how: &str) {
    let first = !ctx.violation_counts.contains_key(&format!("{} | {}", ctx.property, sig));
    let bytes = if first && !ctx.replaying { minimize(entry, input, &sig, ctx) } else { input.to_vec() };
    ctx.begin_case(Json::obj().set("lane", "input").set("entry", ENTRIES[entry]).set("hex", hex(&bytes)).set("mutator", how));
    ctx.violation(&sig, format!("{} [input {} bytes: {}]", msg, bytes.len(), hex(&bytes[..bytes.len().min(64)])));
}

pub fn run(ctx: &mut Ctx) {
    start_hang_watchdog(ctx);
    ctx.note(
        "rule",
        Json::Str(
            "one case = one byte string handed to one deserialize entry point (20 entry points incl. CpcWrapper::new, all 8 \
             Count-Min counter types, 3 Frequent Items item types, t-digest double/float) under catch_unwind with the \
             allocation monitor armed: seeds are valid images of every family, variant and mode (library-written and \
             spec-encoded); mutators: field-aware boundary values driven by the spec decoders' field maps, bit flips, byte \
             sets, truncation, extension, splicing, random tails behind a valid header, pure random strings. Ok values go \
             through a post phase (every accessor, updates, merge, re-serialize, re-deserialize). distinct = fingerprint \
             of (entry, input); non-trivial = input differs from every seed image"
                .into(),
        ),
    );
    let mut rng = ctx.rng("c14");
    let corpus = build_corpus(&mut rng);
    ctx.cover_n("seed_images", corpus.len() as u64);
    // 0. every seed image must be accepted by its own entry point(s) and usable (sanity of the corpus)
    for (si, s) in corpus.iter().enumerate() {
        let _ = si;
        for &e in family_entries(s.fam) {
            if let Verdict::Bad(sig, msg) = judge(e, &s.bytes, ctx) {
                report(ctx, e, &s.bytes, sig, msg, "seed");
            }
        }
    }
    // 1. truncation at every offset (exhaustive for images up to 4 KiB in the thorough tier, strided in quick)
    for s in corpus.iter() {
        let stride = if ctx.quick() { (s.bytes.len() / 48).max(1) } else if s.bytes.len() <= 4096 { 1 } else { s.bytes.len() / 2048 };
        let mut cut = 0;
        while cut < s.bytes.len() {
            for &e in family_entries(s.fam) {
                if let Verdict::Bad(sig, msg) = judge(e, &s.bytes[..cut], ctx) {
                    report(ctx, e, &s.bytes[..cut], sig, msg, "truncate-every-offset");
                }
            }
            cut += stride;
        }
        ctx.cover("truncation_sweeps");
    }
    // 2. mutation loop
    let n = ctx.tier_pick(250_000u64, 6_000_000);
    let mut samples = 0;
    for i in 0..n {
        let si = rng.usize(0, corpus.len() - 1);
        let (input, how) = mutate(&mut rng, &corpus, si);
        let fam = corpus[si].fam;
        let e = if how == "random" || rng.chance(0.08) { rng.usize(0, ENTRIES.len() - 1) } else { *rng.pick(family_entries(fam)) };
        ctx.cover(&format!("mutator_{}", how));
        let v = judge(e, &input, ctx);
        ctx.cases += 1;
        if i % 64 == 0 {
            let mut fp = Fp::new();
            fp.u64(e as u64);
            fp.bytes(&input);
            ctx.end_case(fp.get(), input != corpus[si].bytes);
        }
        if samples < 2 && i % 1000 == 17 {
            samples += 1;
            ctx.sample(Json::obj().set("entry", ENTRIES[e]).set("mutator", how).set("hex", hex(&input[..input.len().min(80)])).set("len", input.len()));
        }
        if let Verdict::Bad(sig, msg) = v {
            report(ctx, e, &input, sig, msg, how);
        }
    }
}

pub fn replay(ctx: &mut Ctx, case: &Json) {
    static WATCHDOG: std::sync::Once = std::sync::Once::new();
    WATCHDOG.call_once(|| start_hang_watchdog(ctx));
    let entry = case.str("entry").and_then(|n| ENTRIES.iter().position(|e| *e == n));
    let bytes = case.str("hex").and_then(unhex);
    match (entry, bytes) {
        (Some(e), Some(b)) => {
            ctx.begin_case(case.clone());
            if let Verdict::Bad(sig, msg) = judge(e, &b, ctx) {
                ctx.violation(&sig, msg);
            }
        }
        _ => ctx.inconclusive("C14 replay: case needs 'entry' and 'hex'".into()),
    }
}
