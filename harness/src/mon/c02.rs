//! C02 — an HLL sketch holds exactly the per-slot maximum of every item it was fed.
//!
//! Three instances (Hll4, Hll6, Hll8) are fed the same stream; after every operation (small k) or at
//! checkpoints (large k) the hook dump of each is compared with the textbook model, the dump's own
//! invariants are checked, the HIP increment law is checked, and the three types must agree on
//! estimate and bounds. A fourth family of instances receives a permutation with repetitions.

use datasketches::common::NumStdDev;
use datasketches::hll::{HllSketch, HllType};
use datasketches::verif::HllState;

use crate::model::hll::{self as m, HllModel};
use crate::rt::{self, rel_close, Ctx, Fp, Json, Rng};

pub const TYPES: [HllType; 3] = [HllType::Hll4, HllType::Hll6, HllType::Hll8];
pub const SDS: [NumStdDev; 3] = [NumStdDev::One, NumStdDev::Two, NumStdDev::Three];

pub fn tname(t: HllType) -> &'static str {
    match t {
        HllType::Hll4 => "Hll4",
        HllType::Hll6 => "Hll6",
        HllType::Hll8 => "Hll8",
    }
}

/// Check one dump against the model and against itself. Returns false on any violation.
pub fn check_state(ctx: &mut Ctx, st: &HllState, model: &HllModel, t: HllType, what: &str) -> bool {
    let mut ok = true;
    let tn = tname(t);
    ctx.evals(1);
    if st.lg_k != model.lg_k {
        ctx.violation("lg_k changed", format!("{} {}: lg_k {} model {}", what, tn, st.lg_k, model.lg_k));
        return false;
    }
    if st.mode < 2 {
        // sparse: coupon set must equal the set of distinct coupons offered
        let mut got: Vec<u32> = st.coupon_table.iter().copied().filter(|&c| c != 0).collect();
        got.sort_unstable();
        let dup = got.windows(2).any(|w| w[0] == w[1]);
        let want: Vec<u32> = model.coupons.iter().copied().collect();
        if dup || got != want {
            ok = false;
            let missing: Vec<u32> = want.iter().copied().filter(|c| got.binary_search(c).is_err()).take(4).collect();
            let extra: Vec<u32> = got.iter().copied().filter(|c| want.binary_search(c).is_err()).take(4).collect();
            ctx.violation(
                "sparse coupon set != model",
                format!(
                    "{} {} mode={} lg_k={}: got {} coupons, model {}; dup={} missing={:x?} extra={:x?}",
                    what, tn, st.mode, st.lg_k, got.len(), want.len(), dup, missing, extra
                ),
            );
        }
        if st.coupon_count != want.len() {
            ok = false;
            ctx.violation(
                "sparse coupon count != model",
                format!("{} {} count {} model {}", what, tn, st.coupon_count, want.len()),
            );
        }
    } else {
        if st.registers != model.regs {
            ok = false;
            let bad: Vec<(usize, u8, u8)> = st
                .registers
                .iter()
                .zip(model.regs.iter())
                .enumerate()
                .filter(|(_, (a, b))| a != b)
                .map(|(i, (a, b))| (i, *a, *b))
                .take(5)
                .collect();
            ctx.violation(
                "register array != model",
                format!(
                    "{} {} lg_k={} cur_min={}: (slot, got, want) {:?} ({} slots differ)",
                    what,
                    tn,
                    st.lg_k,
                    st.cur_min,
                    bad,
                    st.registers.iter().zip(model.regs.iter()).filter(|(a, b)| a != b).count()
                ),
            );
        }
        ok &= check_array_invariants(ctx, st, t, what);
    }
    ok
}

/// Invariants of an array-mode dump on its own (cached quantities agree with the registers).
pub fn check_array_invariants(ctx: &mut Ctx, st: &HllState, t: HllType, what: &str) -> bool {
    let mut ok = true;
    let tn = tname(t);
    let regs = &st.registers;
    let n_at = regs.iter().filter(|&&r| r == st.cur_min).count() as u32;
    if n_at != st.num_at_cur_min {
        ok = false;
        ctx.violation(
            "num_at_cur_min != count of registers at cur_min",
            format!("{} {} lg_k={} cur_min={} cached {} actual {}", what, tn, st.lg_k, st.cur_min, st.num_at_cur_min, n_at),
        );
    }
    if t == HllType::Hll4 {
        if regs.iter().any(|&r| r < st.cur_min) || (n_at == 0) {
            ok = false;
            ctx.violation(
                "Hll4 cur_min is not the minimum register value",
                format!("{} lg_k={} cur_min={} min={:?}", what, st.lg_k, st.cur_min, regs.iter().min()),
            );
        }
        // nibbles and aux map must describe each other
        let mut aux = st.aux.clone();
        aux.sort_unstable();
        let dup = aux.windows(2).any(|w| w[0].0 == w[1].0);
        let mut aux_ok = !dup;
        let mut n_tokens = 0;
        for (slot, &nib) in st.raw_nibbles.iter().enumerate() {
            if nib == 15 {
                n_tokens += 1;
                match aux.binary_search_by_key(&(slot as u32), |p| p.0) {
                    Ok(i) => {
                        let v = aux[i].1;
                        if v < st.cur_min + 15 || v != regs[slot] {
                            aux_ok = false;
                        }
                    }
                    Err(_) => aux_ok = false,
                }
            } else if regs[slot] != st.cur_min + nib {
                aux_ok = false;
            }
        }
        if n_tokens != aux.len() {
            aux_ok = false;
        }
        if !aux_ok {
            ok = false;
            ctx.violation(
                "Hll4 nibbles and aux map disagree",
                format!(
                    "{} lg_k={} cur_min={} tokens={} aux={:?}",
                    what,
                    st.lg_k,
                    st.cur_min,
                    n_tokens,
                    &aux[..aux.len().min(6)]
                ),
            );
        }
    } else if st.cur_min != 0 {
        ok = false;
        ctx.violation("cur_min != 0 for Hll6/Hll8", format!("{} {} cur_min={}", what, tn, st.cur_min));
    }
    let (k0, k1) = m::kxq_of(regs);
    if !rel_close(st.kxq0, k0, 1e-9) || !(rel_close(st.kxq1, k1, 1e-9) || (st.kxq1 - k1).abs() < 1e-18) {
        ok = false;
        ctx.violation(
            "KxQ registers != sum of 2^-register",
            format!("{} {} lg_k={} kxq0 {} want {} kxq1 {:e} want {:e}", what, tn, st.lg_k, st.kxq0, k0, st.kxq1, k1),
        );
    }
    ok
}

pub fn bounds_of(s: &HllSketch) -> [f64; 7] {
    [
        s.estimate(),
        s.lower_bound(NumStdDev::One),
        s.lower_bound(NumStdDev::Two),
        s.lower_bound(NumStdDev::Three),
        s.upper_bound(NumStdDev::One),
        s.upper_bound(NumStdDev::Two),
        s.upper_bound(NumStdDev::Three),
    ]
}

fn check_cross_type(ctx: &mut Ctx, sk: &[HllSketch; 3], what: &str) {
    let b: Vec<[f64; 7]> = sk.iter().map(bounds_of).collect();
    ctx.evals(1);
    for i in 1..3 {
        for j in 0..7 {
            if !rel_close(b[0][j], b[i][j], 1e-12) {
                ctx.violation(
                    "estimate/bounds differ across target types",
                    format!(
                        "{}: lg_k={} {} vs {} component {} (0=est,1-3=lb,4-6=ub): {:?} vs {:?}",
                        what,
                        sk[0].lg_config_k(),
                        tname(TYPES[0]),
                        tname(TYPES[i]),
                        j,
                        b[0],
                        b[i]
                    ),
                );
                return;
            }
        }
    }
    // nesting of the intervals, every state
    for (i, bb) in b.iter().enumerate() {
        let tol = 1e-12 * bb[0].abs().max(1.0);
        let nested = bb[3] <= bb[2] + tol && bb[2] <= bb[1] + tol && bb[1] <= bb[0] + tol && bb[0] <= bb[4] + tol && bb[4] <= bb[5] + tol && bb[5] <= bb[6] + tol;
        if !nested || bb.iter().any(|x| !x.is_finite() || *x < 0.0) {
            ctx.violation(
                "bounds not nested around the estimate",
                format!("{}: {} lg_k={} est/lb1-3/ub1-3 = {:?}", what, tname(TYPES[i]), sk[0].lg_config_k(), bb),
            );
        }
    }
}

struct Trio {
    sk: [HllSketch; 3],
    prev: [Option<HllState>; 3],
}

/// Book-keeping of the transitions observed (coverage obligations).
fn note_transition(ctx: &mut Ctx, prev: &Option<HllState>, cur: &HllState, t: HllType) {
    let Some(p) = prev else { return };
    let tn = tname(t);
    if p.mode != cur.mode {
        ctx.cover(&format!("transition_{}_mode{}to{}", tn, p.mode, cur.mode));
    } else if p.mode == 1 && p.lg_arr != cur.lg_arr {
        ctx.cover(&format!("transition_{}_set_growth", tn));
    }
    if cur.mode == 2 && p.mode == 2 {
        if cur.cur_min > p.cur_min {
            ctx.cover(&format!("cur_min_shift_{}", tn));
            if !p.aux.is_empty() {
                ctx.cover("cur_min_shift_with_live_aux");
                if cur.aux.len() < p.aux.len() {
                    ctx.cover("exception_demoted_by_shift");
                }
            }
        }
        if cur.aux.len() > p.aux.len() {
            ctx.cover("aux_exception_created");
        }
        ctx.cover_max("max_aux_size", cur.aux.len() as f64);
    }
}

impl Trio {
    fn new(lg_k: u8) -> Trio {
        Trio {
            sk: [HllSketch::new(lg_k, TYPES[0]), HllSketch::new(lg_k, TYPES[1]), HllSketch::new(lg_k, TYPES[2])],
            prev: [None, None, None],
        }
    }

    /// dump all three, compare with the model, check HIP law against the previous dump if `single_op`
    fn observe(&mut self, ctx: &mut Ctx, model: &HllModel, what: &str, single_op: Option<(u32, bool)>) {
        for i in 0..3 {
            let t = TYPES[i];
            let st = self.sk[i].verif_state();
            check_state(ctx, &st, model, t, what);
            if self.sk[i].is_empty() != model.is_empty() {
                ctx.violation("is_empty disagrees with model", format!("{} {}", what, tname(t)));
            }
            note_transition(ctx, &self.prev[i], &st, t);
            if let (Some((coupon, _novel)), Some(p)) = (single_op, &self.prev[i]) {
                // HIP increment law: exactly one operation happened since the previous dump
                if p.mode == 2 && st.mode == 2 && !p.out_of_order && !st.out_of_order {
                    let slot = (m::coupon_slot(coupon) & ((1u32 << st.lg_k) - 1)) as usize;
                    let changed = m::coupon_value(coupon) > p.registers[slot];
                    let k = (1u64 << st.lg_k) as f64;
                    let want = if changed { k / (p.kxq0 + p.kxq1) } else { 0.0 };
                    let got = st.hip_accum - p.hip_accum;
                    ctx.evals(1);
                    if (got - want).abs() > 1e-9 * st.hip_accum.abs().max(1.0) {
                        ctx.violation(
                            "HIP increment law broken",
                            format!(
                                "{} {} lg_k={} coupon={:x} register_changed={} hip {} -> {} (delta {}), expected delta {}",
                                what, tname(t), st.lg_k, coupon, changed, p.hip_accum, st.hip_accum, got, want
                            ),
                        );
                    }
                    ctx.cover("hip_law_checks");
                }
            }
            if st.mode == 2 {
                ctx.cover_max("max_register_value", *st.registers.iter().max().unwrap_or(&0) as f64);
                if t == HllType::Hll6 && st.registers[st.registers.len() - 1] > 0 {
                    ctx.cover("array6_last_slot_written");
                }
            }
            self.prev[i] = Some(st);
        }
        check_cross_type(ctx, &self.sk, what);
    }
}

// ------------------------------------------------------------------------------------------------
// stream generators

/// value with a distribution that reaches 63
fn gen_value(rng: &mut Rng, kind: u64) -> u8 {
    match kind {
        0 => (rng.geometric(62) + 1) as u8,          // what hashing produces
        1 => rng.range(1, 63) as u8,                 // uniform
        2 => (rng.geometric(20) + rng.range(1, 40) as u32).min(63) as u8,
        _ => *rng.pick(&[1u8, 2, 14, 15, 16, 17, 30, 31, 32, 33, 47, 62, 63]),
    }
}

#[derive(Clone, Debug)]
pub enum Phase {
    /// n coupons with random slots (26-bit) and values of the given kind
    Random { n: usize, kind: u64 },
    /// every slot once (random order) with value level + noise(0..=spread): raises cur_min
    Floor { level: u8, spread: u8 },
    /// n exceptions: slots get cur_floor + delta
    Exceptions { n: usize, base: u8, delta_lo: u8, delta_hi: u8 },
    /// last slots of the array with assorted values (Array6 window at the end of the byte array)
    LastSlots { n: usize },
    /// re-offer earlier coupons
    Dups { n: usize },
}

pub fn gen_phases(rng: &mut Rng, lg_k: u8, budget: usize) -> Vec<Phase> {
    let k = 1usize << lg_k;
    let mut out = vec![];
    let mut used = 0usize;
    // start in sparse mode most of the time
    if rng.chance(0.8) {
        out.push(Phase::Random { n: rng.usize(1, (k / 2).max(12)), kind: 0 });
    }
    let mut level = 0u8;
    while used < budget {
        let p = match rng.below(10) {
            0 | 1 => Phase::Random { n: rng.usize(1, k.max(16)), kind: rng.below(4) },
            2 | 3 | 4 => {
                level = (level + rng.range(1, 6) as u8).min(60);
                Phase::Floor { level, spread: rng.range(0, 3) as u8 }
            }
            5 | 6 => Phase::Exceptions {
                n: rng.usize(1, (k / 4).max(3)),
                base: level,
                delta_lo: *rng.pick(&[14u8, 15, 15, 16]),
                delta_hi: *rng.pick(&[15u8, 16, 20, 40]),
            },
            7 => Phase::LastSlots { n: rng.usize(1, 6) },
            _ => Phase::Dups { n: rng.usize(1, 64) },
        };
        used += match &p {
            Phase::Random { n, .. } => *n,
            Phase::Floor { .. } => k,
            Phase::Exceptions { n, .. } => *n,
            Phase::LastSlots { n } => *n,
            Phase::Dups { n } => *n,
        };
        out.push(p);
    }
    out
}

pub fn expand_phase(rng: &mut Rng, p: &Phase, lg_k: u8, history: &[u32]) -> Vec<u32> {
    let k = 1u32 << lg_k;
    match p {
        Phase::Random { n, kind } => (0..*n)
            .map(|_| m::make_coupon(rng.next_u32() & m::KEY_MASK_26, gen_value(rng, *kind)))
            .collect(),
        Phase::Floor { level, spread } => {
            let mut slots: Vec<u32> = (0..k).collect();
            rng.shuffle(&mut slots);
            slots
                .into_iter()
                .map(|s| {
                    let hi = rng.next_u32() & m::KEY_MASK_26 & !(k - 1);
                    let v = (*level + rng.range(0, *spread as u64) as u8).clamp(1, 63);
                    m::make_coupon(hi | s, v)
                })
                .collect()
        }
        Phase::Exceptions { n, base, delta_lo, delta_hi } => (0..*n)
            .map(|_| {
                let d = rng.range(*delta_lo.min(delta_hi) as u64, *delta_hi.max(delta_lo) as u64) as u8;
                let v = (base.saturating_add(d)).clamp(1, 63);
                m::make_coupon(rng.next_u32() & m::KEY_MASK_26, v)
            })
            .collect(),
        Phase::LastSlots { n } => (0..*n)
            .map(|i| m::make_coupon(k - 1 - (i as u32 % 3).min(k - 1), gen_value(rng, 1)))
            .collect(),
        Phase::Dups { n } => {
            if history.is_empty() {
                vec![]
            } else {
                (0..*n).map(|_| *rng.pick(history)).collect()
            }
        }
    }
}

// ------------------------------------------------------------------------------------------------

/// Multiplicity independence at every prefix: a twin of one of the three sketches is fed each distinct coupon once
/// (in order of first occurrence); the sketch that also saw every repetition must answer exactly like it, after
/// every operation -- same estimate and bounds, hence the same mode and the same estimator state.
fn twin_check(ctx: &mut Ctx, main: &HllSketch, twin: &HllSketch, what: &str) {
    let (a, b) = (bounds_of(main), bounds_of(twin));
    ctx.evals(1);
    if (0..7).any(|j| !rel_close(a[j], b[j], 1e-12)) || main.is_empty() != twin.is_empty() {
        ctx.violation(
            "state depends on order or multiplicity",
            format!("{}: lg_k={} {}: with repetitions est/lb/ub {:?}, each distinct item once {:?}", what, main.lg_config_k(), tname(main.target_type()), a, b),
        );
    }
}

/// In sparse (list / set) mode a dump costs as much as the table is long. For lg_k <= 12 the state is compared
/// after every operation; above, after each of the first 64 distinct coupons and then whenever the number of
/// distinct coupons is within 2 of 2^j or 3 * 2^j (the sizes at which the list is promoted and the set grows or is
/// promoted), and on a stride of 1/8 of the current count in between.
fn sparse_observation_due(lg_k: u8, distinct: usize) -> bool {
    if lg_k <= 12 || distinct <= 64 {
        return true;
    }
    let near = |x: usize| distinct + 2 >= x && distinct <= x + 2;
    let p = distinct.next_power_of_two();
    near(p) || near(p / 2) || near(p / 4 * 3) || near(p / 8 * 3) || distinct % (p / 16).max(1) == 0
}

fn hook_case(ctx: &mut Ctx, case: &Json) {
    let lg_k = case.u64("lg_k").unwrap_or(4) as u8;
    let budget = case.u64("budget").unwrap_or(1000) as usize;
    let every_op = case.bool("every_op").unwrap_or(lg_k <= 8);
    let mut rng = Rng::new(case.u64("seed").unwrap_or(0));
    let phases = gen_phases(&mut rng, lg_k, budget);
    let mut model = HllModel::new(lg_k);
    let mut trio = Trio::new(lg_k);
    let mut history: Vec<u32> = vec![];
    let stride = ((1usize << lg_k) / 4).max(1);
    let ti = (case.u64("seed").unwrap_or(0) % 3) as usize;
    let mut twin = HllSketch::new(lg_k, TYPES[ti]);
    let mut twin_ok = true;
    trio.observe(ctx, &model, "fresh", None);
    for (pi, ph) in phases.iter().enumerate() {
        let coupons = expand_phase(&mut rng, ph, lg_k, &history);
        for (ci, &c) in coupons.iter().enumerate() {
            let novel = model.offer(c);
            for s in trio.sk.iter_mut() {
                s.verif_update_with_coupon(c);
            }
            if history.len() < 4096 {
                history.push(c);
            }
            if novel {
                twin.verif_update_with_coupon(c);
            }
            if twin_ok {
                let before = ctx.violations.len();
                twin_check(ctx, &trio.sk[ti], &twin, &format!("phase {} op {}", pi, ci));
                twin_ok = ctx.violations.len() == before;
            }
            let sparse = trio.prev[0].as_ref().map(|p| p.mode < 2).unwrap_or(true);
            if every_op || (sparse && sparse_observation_due(lg_k, model.coupons.len())) {
                // (the HIP increment law needs consecutive dumps: only when every operation is observed)
                let single = if every_op || lg_k <= 12 { Some((c, novel)) } else { None };
                trio.observe(ctx, &model, &format!("phase {} op {}", pi, ci), single);
            } else if sparse {
                // not observed
            } else if ci % stride == stride - 1 {
                trio.observe(ctx, &model, &format!("phase {} op {}", pi, ci), None);
            }
        }
        if !every_op {
            trio.observe(ctx, &model, &format!("end of phase {}", pi), None);
        }
    }
    // permutation lane: same multiset in another order, with repeats, into fresh instances
    let mut all: Vec<u32> = model.coupons.iter().copied().collect();
    let extra: Vec<u32> = (0..all.len() / 3 + 1).map(|_| *rng.pick(&all)).collect();
    all.extend(extra);
    rng.shuffle(&mut all);
    for (i, t) in TYPES.iter().enumerate() {
        let mut s2 = HllSketch::new(lg_k, *t);
        for &c in &all {
            s2.verif_update_with_coupon(c);
        }
        let st2 = s2.verif_state();
        check_state(ctx, &st2, &model, *t, "permuted instance");
        let st1 = trio.prev[i].as_ref().unwrap();
        // same distinct set => same observable state
        let same = if st1.mode < 2 && st2.mode < 2 {
            let mut a: Vec<u32> = st1.coupon_table.iter().copied().filter(|&c| c != 0).collect();
            let mut b: Vec<u32> = st2.coupon_table.iter().copied().filter(|&c| c != 0).collect();
            a.sort_unstable();
            b.sort_unstable();
            a == b
        } else if st1.mode == 2 && st2.mode == 2 {
            st1.registers == st2.registers
        } else {
            false
        };
        ctx.check(same, "state depends on order or multiplicity", || {
            format!("lg_k={} {} modes {} / {}", lg_k, tname(*t), st1.mode, st2.mode)
        });
    }
    let mut fp = Fp::new();
    fp.u64(lg_k as u64);
    for c in &model.coupons {
        fp.u64(*c as u64);
    }
    ctx.cover(&format!("hook_lane_lg_k_{}", lg_k));
    ctx.end_case(fp.get(), model.coupons.len() > 8);
}

fn public_case(ctx: &mut Ctx, case: &Json) {
    let lg_k = case.u64("lg_k").unwrap_or(4) as u8;
    let n = case.u64("n").unwrap_or(1000) as usize;
    let every_op = case.bool("every_op").unwrap_or(lg_k <= 8);
    let mut rng = Rng::new(case.u64("seed").unwrap_or(0));
    let domain = rng.range(1, (n as u64) * 2).max(1);
    let salt = rng.next_u64();
    let mut model = HllModel::new(lg_k);
    let mut trio = Trio::new(lg_k);
    let stride = ((1usize << lg_k) / 2).max(1);
    let kind = rng.below(3);
    let ti = (case.u64("seed").unwrap_or(0) % 3) as usize;
    let mut twin = HllSketch::new(lg_k, TYPES[ti]);
    let mut twin_ok = true;
    for i in 0..n {
        let x = rng.below(domain); // heavy duplication
        let c = match kind {
            0 => {
                let item = (salt, x);
                let c = m::coupon_of_bytes(&rt::hashed_bytes(&item));
                for s in trio.sk.iter_mut() {
                    s.update(item);
                }
                c
            }
            1 => {
                let item = format!("item-{}-{}", salt % 1000, x);
                let c = m::coupon_of_bytes(&rt::hashed_bytes(&item));
                for s in trio.sk.iter_mut() {
                    s.update(item.as_str());
                }
                c
            }
            _ => {
                let item = x.wrapping_mul(0x9E3779B97F4A7C15) ^ salt;
                let c = m::coupon_of_bytes(&rt::hashed_bytes(&item));
                for s in trio.sk.iter_mut() {
                    s.update(item);
                }
                c
            }
        };
        let novel = model.offer(c);
        if novel {
            twin.verif_update_with_coupon(c);
        }
        if twin_ok {
            let before = ctx.violations.len();
            twin_check(ctx, &trio.sk[ti], &twin, &format!("public op {}", i));
            twin_ok = ctx.violations.len() == before;
        }
        let sparse = trio.prev[0].as_ref().map(|p| p.mode < 2).unwrap_or(true);
        if every_op || (sparse && sparse_observation_due(lg_k, model.coupons.len())) {
            let single = if every_op || lg_k <= 12 { Some((c, novel)) } else { None };
            trio.observe(ctx, &model, &format!("public op {}", i), single);
        } else if sparse {
            // not observed
        } else if i % stride == stride - 1 {
            trio.observe(ctx, &model, &format!("public op {}", i), None);
        }
    }
    trio.observe(ctx, &model, "public end", None);
    let mut fp = Fp::new();
    fp.u64(lg_k as u64);
    for c in &model.coupons {
        fp.u64(*c as u64);
    }
    ctx.cover(&format!("public_lane_lg_k_{}", lg_k));
    ctx.end_case(fp.get(), model.coupons.len() > 8);
}

pub fn run_case(ctx: &mut Ctx, case: &Json) {
    ctx.begin_case(case.clone());
    let r = rt::guard(|| match case.str("lane") {
        Some("hook") => hook_case(ctx, case),
        Some("public") => public_case(ctx, case),
        other => ctx.inconclusive(format!("C02: unknown lane {:?}", other)),
    });
    if let Err(p) = r {
        ctx.panic_violation("HllSketch update/query", &p);
    }
}

pub fn run(ctx: &mut Ctx) {
    ctx.note(
        "rule",
        Json::Str(
            "one case = one history (hook lane: crafted coupon phases reaching value 63, floors that shift cur_min, planted \
             exceptions; public lane: hashed items with heavy duplication) fed to Hll4/Hll6/Hll8 instances and to the \
             textbook model; state compared after every operation for lg_k<=8, at checkpoints above. distinct = \
             fingerprint of (lg_k, final coupon set); non-trivial = more than 8 distinct coupons (past list mode)"
                .into(),
        ),
    );
    let quick = ctx.quick();
    let lgks: Vec<u8> = if quick { (4..=12).collect() } else { (4..=12).collect() };
    let per_lgk_hook = ctx.tier_pick(30u64, 300);
    let per_lgk_public = ctx.tier_pick(15u64, 150);
    for &lg_k in &lgks {
        let k = 1u64 << lg_k;
        for i in 0..per_lgk_hook {
            let budget = if lg_k <= 8 { k * 24 } else { k * 12 };
            let case = Json::obj()
                .set("lane", "hook")
                .set("lg_k", lg_k)
                .set("budget", budget.min(ctx.tier_pick(60_000, 400_000)))
                .set("seed", ctx.case_seed(&format!("hook{}", lg_k), i));
            run_case(ctx, &case);
            if i == 0 && lg_k == 5 {
                ctx.sample(case);
            }
        }
        for i in 0..per_lgk_public {
            let n = (k * 6).min(ctx.tier_pick(40_000, 400_000));
            let case = Json::obj()
                .set("lane", "public")
                .set("lg_k", lg_k)
                .set("n", n)
                .set("seed", ctx.case_seed(&format!("public{}", lg_k), i));
            run_case(ctx, &case);
            if i == 0 && lg_k == 9 {
                ctx.sample(case);
            }
        }
    }
    // big-k spot checks, checkpoints only: lg_k 13..=17 in the quick tier, 13..=21 in the thorough one (slot
    // indices beyond 16 bits, aux tables beyond 2^8 entries)
    {
        let top = ctx.tier_pick(17u8, 21);
        for lg_k in 13..=top {
            if (lg_k as usize - 13) % ctx.nshards != ctx.shard {
                continue;
            }
            let k = 1u64 << lg_k;
            let case = Json::obj()
                .set("lane", "hook")
                .set("lg_k", lg_k)
                .set("budget", (k * ctx.tier_pick(3, 5)).min(12_000_000))
                .set("every_op", false)
                .set("seed", ctx.case_seed("hookbig", lg_k as u64));
            run_case(ctx, &case);
            let case = Json::obj()
                .set("lane", "public")
                .set("lg_k", lg_k)
                .set("n", (k * ctx.tier_pick(1, 3)).min(6_000_000))
                .set("every_op", false)
                .set("seed", ctx.case_seed("publicbig", lg_k as u64));
            run_case(ctx, &case);
        }
    }
    // coverage obligations (deterministic by construction of the phases; reported, and checked by the driver)
    if ctx.shard == 0 {
        ctx.note("obligations", Json::Str("cur_min_shift_with_live_aux>=1, exception_demoted_by_shift>=1, all mode transitions".into()));
    }
}

pub fn replay(ctx: &mut Ctx, case: &Json) {
    run_case(ctx, case);
}
