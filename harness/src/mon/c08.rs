//! C08 — Count-Min never under-counts; its table is the exact sum of hashed weights.

use std::collections::HashMap;

use datasketches::countmin::{CountMinSketch, CountMinValue};

use crate::refhash;
use crate::rt::{self, Ctx, Fp, Json, Rng};

/// Bridge between the sealed counter types and the model's i128 arithmetic.
pub trait Cm: CountMinValue + std::fmt::Debug + 'static {
    const NAME: &'static str;
    const MAXV: i128;
    const UNSIGNED: bool;
    fn to_i(self) -> i128;
    fn from_i(v: i128) -> Self;
    /// the documented decay on one counter, for the model (unsigned types only)
    fn model_decay(v: i128, d: f64) -> i128;
    fn lib_halve(_s: &mut CountMinSketch<Self>) {}
    fn lib_decay(_s: &mut CountMinSketch<Self>, _d: f64) {}
}

macro_rules! cm_signed {
    ($t:ty, $n:expr) => {
        impl Cm for $t {
            const NAME: &'static str = $n;
            const MAXV: i128 = <$t>::MAX as i128;
            const UNSIGNED: bool = false;
            fn to_i(self) -> i128 {
                self as i128
            }
            fn from_i(v: i128) -> Self {
                v as $t
            }
            fn model_decay(v: i128, _d: f64) -> i128 {
                v
            }
        }
    };
}
macro_rules! cm_unsigned {
    ($t:ty, $n:expr) => {
        impl Cm for $t {
            const NAME: &'static str = $n;
            const MAXV: i128 = <$t>::MAX as i128;
            const UNSIGNED: bool = true;
            fn to_i(self) -> i128 {
                self as i128
            }
            fn from_i(v: i128) -> Self {
                v as $t
            }
            fn model_decay(v: i128, d: f64) -> i128 {
                // documented: counter := trunc(counter * decay), in f64, cast back to the counter type
                ((v as $t) as f64 * d).trunc() as $t as i128
            }
            fn lib_halve(s: &mut CountMinSketch<Self>) {
                s.halve()
            }
            fn lib_decay(s: &mut CountMinSketch<Self>, d: f64) {
                s.decay(d)
            }
        }
    };
}
cm_signed!(i8, "i8");
cm_signed!(i16, "i16");
cm_signed!(i32, "i32");
cm_signed!(i64, "i64");
cm_unsigned!(u8, "u8");
cm_unsigned!(u16, "u16");
cm_unsigned!(u32, "u32");
cm_unsigned!(u64, "u64");

#[derive(Clone)]
pub struct CmModel {
    pub num_hashes: usize,
    pub num_buckets: usize,
    pub seed: u64,
    pub row_seeds: Vec<u64>,
    pub table: Vec<i128>,
    pub total: i128,
    pub truth: HashMap<u64, i128>,
}

impl CmModel {
    pub fn new(num_hashes: u8, num_buckets: u32, seed: u64) -> CmModel {
        let row_seeds = (0..num_hashes as u64).map(|i| refhash::murmur3_x64_128(&i.to_le_bytes(), seed).0).collect();
        CmModel {
            num_hashes: num_hashes as usize,
            num_buckets: num_buckets as usize,
            seed,
            row_seeds,
            table: vec![0; num_hashes as usize * num_buckets as usize],
            total: 0,
            truth: HashMap::new(),
        }
    }
    pub fn index(&self, row: usize, bytes: &[u8]) -> usize {
        let b = (refhash::murmur3_x64_128(bytes, self.row_seeds[row]).0 % self.num_buckets as u64) as usize;
        row * self.num_buckets + b
    }
    pub fn add(&mut self, item: u64, bytes: &[u8], w: i128) {
        for r in 0..self.num_hashes {
            let i = self.index(r, bytes);
            self.table[i] += w;
        }
        self.total += w;
        *self.truth.entry(item).or_insert(0) += w;
    }
    pub fn estimate(&self, bytes: &[u8]) -> i128 {
        (0..self.num_hashes).map(|r| self.table[self.index(r, bytes)]).min().unwrap()
    }
    pub fn merge(&mut self, o: &CmModel) {
        for (a, b) in self.table.iter_mut().zip(o.table.iter()) {
            *a += *b;
        }
        self.total += o.total;
        for (k, v) in &o.truth {
            *self.truth.entry(*k).or_insert(0) += *v;
        }
    }
    pub fn map_all(&mut self, f: impl Fn(i128) -> i128) {
        for c in self.table.iter_mut() {
            *c = f(*c);
        }
        self.total = f(self.total);
        for v in self.truth.values_mut() {
            *v = f(*v);
        }
    }
}

/// Parse the counter table out of a serialized image (layout: 16-byte preamble, total, row-major counts).
pub fn table_from_image(img: &[u8], entries: usize) -> Option<(i128, Vec<i128>, bool)> {
    if img.len() < 16 {
        return None;
    }
    let empty = img[3] & 1 == 1;
    if empty {
        return Some((0, vec![0; entries], true));
    }
    if img.len() != 16 + 8 + 8 * entries {
        return None;
    }
    let rd = |off: usize| -> i128 { i64::from_le_bytes(img[off..off + 8].try_into().unwrap()) as i128 };
    let total = rd(16);
    let t = (0..entries).map(|i| rd(24 + 8 * i)).collect();
    Some((total, t, false))
}

fn item_bytes(i: u64, salt: u64) -> ((u64, u64), Vec<u8>) {
    let item = (salt, i);
    (item, rt::hashed_bytes(&item))
}

pub struct Tail {
    exceed: u64,
    items: u64,
}

fn check_cm<T: Cm>(ctx: &mut Ctx, sk: &CountMinSketch<T>, model: &CmModel, domain: u64, salt: u64, what: &str, tail: &mut Tail) {
    ctx.evals(1);
    let tag = format!("{} [{} {}x{} seed {}]", what, T::NAME, model.num_hashes, model.num_buckets, model.seed);
    let img = sk.serialize();
    let is_u64 = T::NAME == "u64";
    match table_from_image(&img, model.table.len()) {
        None => ctx.violation("serialized image has an unexpected length", format!("{}: {} bytes", tag, img.len())),
        Some((total, table, _)) => {
            let fix = |v: i128| if is_u64 && v < 0 { v + (1i128 << 64) } else { v };
            let total = fix(total);
            if total != model.total {
                ctx.violation("total weight in image != exact sum of weights", format!("{}: {} want {}", tag, total, model.total));
            }
            let bad: Vec<(usize, i128, i128)> = table
                .iter()
                .map(|v| fix(*v))
                .zip(model.table.iter())
                .enumerate()
                .filter(|(_, (a, b))| a != *b)
                .map(|(i, (a, b))| (i, a, *b))
                .take(4)
                .collect();
            if !bad.is_empty() {
                ctx.violation("counter table != model table", format!("{}: (index, got, want) {:?}", tag, bad));
            }
        }
    }
    if sk.total_weight().to_i() != model.total {
        ctx.violation("total_weight != exact sum of weights", format!("{}: {} want {}", tag, sk.total_weight().to_i(), model.total));
    }
    if sk.is_empty() != (model.total == 0) {
        ctx.violation("is_empty disagrees with total weight", format!("{}", tag));
    }
    let eps = sk.relative_error();
    let mut n_bad = 0;
    for i in 0..domain {
        let (item, bytes) = item_bytes(i, salt);
        let truth = *model.truth.get(&i).unwrap_or(&0);
        let est = sk.estimate(item).to_i();
        let lb = sk.lower_bound(item).to_i();
        let ub = sk.upper_bound(item).to_i();
        let want = model.estimate(&bytes);
        let ok = est >= truth && est <= model.total && lb == est && ub >= est && est == want;
        if !ok {
            n_bad += 1;
            if n_bad <= 2 {
                let sig = if est < truth {
                    "estimate < true weight (under-count)"
                } else if est > model.total {
                    "estimate > total_weight"
                } else if lb != est {
                    "lower_bound != estimate"
                } else if ub < est {
                    "upper_bound < estimate"
                } else {
                    "estimate != minimum over the item's model buckets"
                };
                ctx.violation(sig, format!("{}: item #{} truth {} estimate {} (model {}) lb {} ub {} total {}", tag, i, truth, est, want, lb, ub, model.total));
            }
        }
        tail.items += 1;
        if (est - truth) as f64 > eps * model.total as f64 {
            tail.exceed += 1;
        }
    }
    ctx.evals(domain);
}

fn run_typed<T: Cm>(ctx: &mut Ctx, case: &Json, tails: &mut HashMap<u64, Tail>) {
    let mut rng = Rng::new(case.u64("seed").unwrap_or(0));
    let num_hashes = case.u64("num_hashes").unwrap_or(3) as u8;
    let num_buckets = case.u64("num_buckets").unwrap_or(16) as u32;
    let n_ops = case.u64("n_ops").unwrap_or(200) as usize;
    let domain = case.u64("domain").unwrap_or(64);
    let mut seed = *rng.pick(&[9001u64, 0, 1, u64::MAX, 0xfeed_f00d]);
    if refhash::seed_hash(seed) == 0 {
        seed = 9001;
    }
    let salt = rng.next_u64();
    let mut sk: CountMinSketch<T> = CountMinSketch::with_seed(num_hashes, num_buckets, seed);
    let mut model = CmModel::new(num_hashes, num_buckets, seed);
    let tail = tails.entry(num_hashes as u64).or_insert(Tail { exceed: 0, items: 0 });
    let mut scratch_tail = Tail { exceed: 0, items: 0 };
    check_cm(ctx, &sk, &model, domain.min(16), salt, "fresh", &mut scratch_tail);
    let every = (n_ops / 10).max(1);
    let big = T::MAXV > (1i128 << 40);
    if rng.chance(0.3) {
        // start in the upper half of the counter type's range (one heavy item), so that every later
        // operation, including decay and the round trip, is exercised near the type's maximum
        let w = T::MAXV / 2 + 1 + (rng.next_u64() as i128 % (T::MAXV / 4).max(1));
        let i = rng.below(domain);
        let (item, bytes) = item_bytes(i, salt);
        sk.update_with_weight(item, T::from_i(w));
        model.add(i, &bytes, w);
        ctx.cover("history_in_upper_half_of_range");
        check_cm(ctx, &sk, &model, domain, salt, "after the heavy first update", &mut scratch_tail);
    }
    for op in 0..n_ops {
        let remaining = T::MAXV - model.total;
        let r = rng.below(100);
        if r < 80 {
            if remaining <= 0 {
                continue;
            }
            let i = if rng.chance(0.3) { rng.below(domain.min(4)) } else { rng.below(domain) };
            let (item, bytes) = item_bytes(i, salt);
            let w: i128 = if rng.chance(0.5) {
                1
            } else if big && rng.chance(0.1) {
                (rng.next_u64() >> rng.range(1, 40)) as i128
            } else {
                1 + rng.below(9) as i128
            };
            let w = w.min(remaining);
            if w == 1 && rng.chance(0.5) {
                sk.update(item);
            } else {
                sk.update_with_weight(item, T::from_i(w));
            }
            model.add(i, &bytes, w);
            ctx.cover("op_update");
        } else if r < 88 {
            // merge with a compatible partner whose total fits
            let budget = (remaining / 2).min(1i128 << 50);
            let mut other: CountMinSketch<T> = CountMinSketch::with_seed(num_hashes, num_buckets, seed);
            let mut om = CmModel::new(num_hashes, num_buckets, seed);
            let n = rng.usize(0, 30);
            for _ in 0..n {
                let left = budget - om.total;
                if left <= 0 {
                    break;
                }
                let i = rng.below(domain);
                let (item, bytes) = item_bytes(i, salt);
                let w = (1 + rng.below(5) as i128).min(left);
                other.update_with_weight(item, T::from_i(w));
                om.add(i, &bytes, w);
            }
            sk.merge(&other);
            model.merge(&om);
            ctx.cover("op_merge");
            check_cm(ctx, &sk, &model, domain, salt, &format!("after merge at op {}", op), &mut scratch_tail);
        } else if r < 92 && T::UNSIGNED {
            T::lib_halve(&mut sk);
            model.map_all(|v| v >> 1);
            ctx.cover("op_halve");
            check_cm(ctx, &sk, &model, domain, salt, &format!("after halve at op {}", op), &mut scratch_tail);
        } else if r < 96 && T::UNSIGNED {
            let d = *rng.pick(&[1.0f64, 0.5, 0.9, 0.999, 0.1, 1e-3, 0.3333333333333333]);
            T::lib_decay(&mut sk, d);
            model.map_all(|v| T::model_decay(v, d));
            ctx.cover("op_decay");
            check_cm(ctx, &sk, &model, domain, salt, &format!("after decay({}) at op {}", d, op), &mut scratch_tail);
        } else {
            let img = sk.serialize();
            match CountMinSketch::<T>::deserialize_with_seed(&img, seed) {
                Ok(d) => {
                    sk = d;
                    ctx.cover("op_roundtrip");
                }
                Err(e) => ctx.violation("a sketch's own image does not deserialize", format!("{} {}x{}: {}", T::NAME, num_hashes, num_buckets, e)),
            }
        }
        if op % every == every - 1 {
            check_cm(ctx, &sk, &model, domain, salt, &format!("after op {}", op), &mut scratch_tail);
        }
    }
    check_cm(ctx, &sk, &model, domain, salt, "end", tail);
    ctx.cover(&format!("type_{}", T::NAME));
    let mut fp = Fp::new();
    fp.u64(num_hashes as u64);
    fp.u64(num_buckets as u64);
    fp.u64(model.total as u64);
    for c in model.table.iter().take(32) {
        fp.u64(*c as u64);
    }
    ctx.end_case(fp.get(), model.total > 0);
}


/// Explicit witness: upper_bound on narrow counter types with a total close to the type's maximum.
fn scenario_typed<T: Cm>(ctx: &mut Ctx) {
    for (h, b) in [(1u8, 3u32), (5, 3), (2, 7)] {
        let mut sk: CountMinSketch<T> = CountMinSketch::with_seed(h, b, 9001);
        let mut model = CmModel::new(h, b, 9001);
        let target = (T::MAXV - 3).min(40_000);
        let mut i = 0u64;
        while model.total < target {
            let (item, bytes) = item_bytes(i % 5, 11);
            let w = ((target - model.total).min(9)).max(1);
            sk.update_with_weight(item, T::from_i(w));
            model.add(i % 5, &bytes, w);
            i += 1;
        }
        let mut t = Tail { exceed: 0, items: 0 };
        check_cm(ctx, &sk, &model, 8, 11, &format!("scenario upper_bound_narrow_types {}x{}", h, b), &mut t);
    }
}

/// Copies: `clone()` and `clone_from()` (between sketches of the same and of different shapes) give a sketch that
/// behaves like its source from then on -- the table, the totals and the rows the next updates go to.
fn scenario_clone_typed<T: Cm>(ctx: &mut Ctx) {
    for ((h1, b1), (h2, b2)) in [((2u8, 16u32), (5u8, 16u32)), ((5, 16), (2, 16)), ((3, 7), (3, 7)), ((1, 64), (4, 5))] {
        let seed = 9001u64;
        let mut a: CountMinSketch<T> = CountMinSketch::with_seed(h1, b1, seed);
        let mut ma = CmModel::new(h1, b1, seed);
        let mut donor: CountMinSketch<T> = CountMinSketch::with_seed(h2, b2, seed);
        let mut md = CmModel::new(h2, b2, seed);
        for i in 0..6u64 {
            let (item, bytes) = item_bytes(i, 23);
            a.update(item);
            ma.add(i, &bytes, 1);
            let (item2, bytes2) = item_bytes(i + 3, 23);
            donor.update_with_weight(item2, T::from_i(2));
            md.add(i + 3, &bytes2, 2);
        }
        let mut t = Tail { exceed: 0, items: 0 };
        check_cm(ctx, &a, &ma, 12, 23, &format!("scenario clone: receiver {}x{} before clone_from", h1, b1), &mut t);
        a.clone_from(&donor);
        let mut ma = md.clone();
        let mut c = donor.clone();
        let mut mc = md.clone();
        for i in 0..5u64 {
            let (item, bytes) = item_bytes(i * 2, 23);
            a.update(item);
            ma.add(i * 2, &bytes, 1);
            c.update(item);
            mc.add(i * 2, &bytes, 1);
        }
        check_cm(ctx, &a, &ma, 12, 23, &format!("scenario clone: {}x{} after clone_from a {}x{} sketch and 5 updates", h1, b1, h2, b2), &mut t);
        check_cm(ctx, &c, &mc, 12, 23, &format!("scenario clone: clone() of a {}x{} sketch and 5 updates", h2, b2), &mut t);
        // the copy is a full citizen: it merges into a fresh sketch of the source's shape
        let mut f: CountMinSketch<T> = CountMinSketch::with_seed(h2, b2, seed);
        let mut mf = CmModel::new(h2, b2, seed);
        f.merge(&a);
        mf.merge(&ma);
        check_cm(ctx, &f, &mf, 12, 23, &format!("scenario clone: fresh {}x{} after merging the clone_from copy", h2, b2), &mut t);
    }
}

fn scenario_case(ctx: &mut Ctx, case: &Json) {
    if case.str("name") == Some("clone_and_clone_from") {
        scenario_clone_typed::<i8>(ctx);
        scenario_clone_typed::<u8>(ctx);
        scenario_clone_typed::<i16>(ctx);
        scenario_clone_typed::<u16>(ctx);
        scenario_clone_typed::<i32>(ctx);
        scenario_clone_typed::<u32>(ctx);
        scenario_clone_typed::<i64>(ctx);
        scenario_clone_typed::<u64>(ctx);
        ctx.cover("scenario_clone_and_clone_from");
        ctx.end_case(0x5ce9a411, true);
        return;
    }
    scenario_typed::<i8>(ctx);
    scenario_typed::<u8>(ctx);
    scenario_typed::<i16>(ctx);
    scenario_typed::<u16>(ctx);
    scenario_typed::<i32>(ctx);
    scenario_typed::<u32>(ctx);
    scenario_typed::<i64>(ctx);
    scenario_typed::<u64>(ctx);
    ctx.cover("scenario_upper_bound_narrow_types");
    ctx.end_case(0x5ce9a410, true);
}

pub fn run_case_t(ctx: &mut Ctx, case: &Json, tails: &mut HashMap<u64, Tail>) {
    ctx.begin_case(case.clone());
    let r = rt::guard(|| match case.str("type") {
        _ if case.str("lane") == Some("scenario") => scenario_case(ctx, case),
        Some("i8") => run_typed::<i8>(ctx, case, tails),
        Some("i16") => run_typed::<i16>(ctx, case, tails),
        Some("i32") => run_typed::<i32>(ctx, case, tails),
        Some("i64") => run_typed::<i64>(ctx, case, tails),
        Some("u8") => run_typed::<u8>(ctx, case, tails),
        Some("u16") => run_typed::<u16>(ctx, case, tails),
        Some("u32") => run_typed::<u32>(ctx, case, tails),
        Some("u64") => run_typed::<u64>(ctx, case, tails),
        other => ctx.inconclusive(format!("C08: unknown counter type {:?}", other)),
    });
    if let Err(p) = r {
        ctx.panic_violation("CountMinSketch", &p);
    }
}

pub fn run(ctx: &mut Ctx) {
    ctx.note(
        "rule",
        Json::Str(
            "one case = one history over update / update_with_weight / merge / halve / decay / serialize-deserialize on a \
             sketch of num_hashes 1..=8 x num_buckets 3..=512 x one of the 8 counter types x seed, with non-negative \
             weights whose total fits the type; the whole counter table (parsed from the image) is compared with the \
             exact model table, and every item of the domain (seen or not) is checked for truth <= estimate <= total at \
             ~10 checkpoints and after every merge/halve/decay. distinct = fingerprint of (shape, total, table prefix); \
             non-trivial = non-zero total weight"
                .into(),
        ),
    );
    if ctx.shard == 0 {
        let mut t = HashMap::new();
        run_case_t(ctx, &Json::obj().set("lane", "scenario").set("name", "upper_bound_narrow_types"), &mut t);
        run_case_t(ctx, &Json::obj().set("lane", "scenario").set("name", "clone_and_clone_from"), &mut t);
    }
    let n = ctx.tier_pick(200u64, 12_000);
    let mut rng = ctx.rng("cases");
    let mut tails: HashMap<u64, Tail> = HashMap::new();
    let types = ["i8", "i16", "i32", "i64", "u8", "u16", "u32", "u64"];
    for i in 0..n {
        let ty = types[(i % 8) as usize];
        let case = Json::obj()
            .set("type", ty)
            .set("num_hashes", rng.range(1, 8))
            .set("num_buckets", if rng.chance(0.3) { rng.range(3, 12) } else { rng.range(3, 512) })
            .set("domain", *rng.pick(&[4u64, 30, 200, 1000]))
            .set("n_ops", *rng.pick(&[20u64, 200, 1500]))
            .set("seed", ctx.case_seed("cm", i));
        run_case_t(ctx, &case, &mut tails);
        if i < 2 {
            ctx.sample(case);
        }
    }
    // tail clause: fraction of items whose estimate exceeds truth + relative_error * total <= e^-num_hashes
    let mut stats = vec![];
    for (h, t) in &tails {
        if t.items < 200 {
            continue;
        }
        let p0 = (-(*h as f64)).exp();
        let frac = t.exceed as f64 / t.items as f64;
        let margin = 6.0 * (p0 * (1.0 - p0) / t.items as f64).sqrt();
        ctx.evals(1);
        ctx.begin_case(Json::obj().set("lane", "tail").set("num_hashes", *h).set("items", t.items).set("exceed", t.exceed));
        if frac > p0 + margin {
            ctx.violation(
                "fraction of items over truth + relative_error*total exceeds 1 - confidence",
                format!("num_hashes {}: {} of {} = {} > {} + {}", h, t.exceed, t.items, frac, p0, margin),
            );
        }
        stats.push(Json::obj().set("num_hashes", *h).set("items", t.items).set("exceed", t.exceed).set("bound", p0));
    }
    ctx.note("list:tail_clause", Json::Arr(stats));
}

pub fn replay(ctx: &mut Ctx, case: &Json) {
    let mut tails = HashMap::new();
    run_case_t(ctx, case, &mut tails);
}
