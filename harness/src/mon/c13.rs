//! C13 — every image variant Java/C++ can emit is read back to the state it encodes.
//!
//! Images come from the harness's independent spec encoders (harness/src/spec), built from random
//! abstract states, in every variant and flag combination the Java/C++ writers use — including the
//! ones this library never writes itself.

use std::collections::BTreeSet;

use datasketches::bloom::BloomFilter;
use datasketches::common::NumStdDev;
use datasketches::countmin::CountMinSketch;
use datasketches::cpc::{CpcSketch, CpcWrapper};
use datasketches::frequencies::FrequentItemsSketch;
use datasketches::hll::{HllSketch, HllType, HllUnion};
use datasketches::tdigest::TDigestMut;
use datasketches::theta::CompactThetaSketch;

use super::c02::{check_state, tname, TYPES};
use super::c03::{check_union_state, UnionModel};
use super::c05::check_cpc_state;
use super::c10::{synth_image, IMAGE_CLASSES};
use crate::model::cpc as cm;
use crate::model::hll::{self as hm, HllModel};
use crate::refhash;
use crate::rt::{self, json::hex, rel_close, Ctx, Fp, Json, Rng};
use crate::spec;

fn type_of(bits: u8) -> HllType {
    match bits {
        4 => HllType::Hll4,
        6 => HllType::Hll6,
        _ => HllType::Hll8,
    }
}

// ------------------------------------------------------------------------------------------------
// HLL

fn hll_case(ctx: &mut Ctx, case: &Json) {
    let mut rng = Rng::new(case.u64("seed").unwrap_or(0));
    let lg_k = case.u64("force_lg_k").unwrap_or(rng.range(4, case.u64("max_lg").unwrap_or(12))) as u8;
    let k = 1usize << lg_k;
    let bits = case.u64("force_bits").map(|b| b as u8).unwrap_or(*rng.pick(&[4u8, 6, 8]));
    let t = type_of(bits);
    // the abstract state: a set of hash-like coupons
    let n = match rng.below(6) {
        0 => 0,
        1 => rng.usize(1, 7),
        2 => rng.usize(8, (3 * k / 32).max(9)),
        3 => rng.usize(k / 2, 2 * k),
        _ => rng.usize(2 * k, 40 * k),
    };
    let n = case.u64("force_n").map(|x| x as usize).unwrap_or(n);
    let mut model = HllModel::new(lg_k);
    for _ in 0..n {
        model.offer(hm::make_coupon(rng.next_u32() & hm::KEY_MASK_26, (rng.geometric(62) + 1) as u8));
    }
    // occasionally push a few registers very high so that HLL4 exceptions and cur_min > 0 appear
    let as_array = n >= 8 && (lg_k < 8 || n * 4 > 3 * (k / 8) || rng.chance(0.3)) || (n > 0 && rng.chance(0.1));
    let mut artificial = false;
    if as_array && rng.chance(0.4) {
        artificial = true;
        let floor = rng.range(1, 6) as u8;
        for s in 0..k as u32 {
            model.offer(hm::make_coupon(s, floor + rng.below(3) as u8));
        }
        for _ in 0..rng.usize(1, (k / 8).max(2)) {
            model.offer(hm::make_coupon(rng.next_u32() & (k as u32 - 1), floor + 15 + rng.below(20) as u8));
        }
    }
    let ooo = as_array && rng.chance(0.4);
    let n_true = model.coupons.len() as f64;
    let im = if as_array {
        spec::hll::HllImage::array(lg_k, bits, model.regs.clone(), if ooo { 0.0 } else { n_true * 1.0009765625 }, ooo)
    } else {
        spec::hll::HllImage::sparse(lg_k, bits, model.coupons.iter().copied().collect())
    };
    let variants: [bool; 2] = [true, false];
    let mut decoded: Vec<HllSketch> = vec![];
    let mut fp = Fp::new();
    for compact in variants {
        let bytes = spec::hll::encode(&im, compact);
        fp.bytes(&bytes[..bytes.len().min(256)]);
        let what = format!(
            "HLL image lg_k={} {} mode={} compact={} ooo={} coupons={} aux={} cur_min={}",
            lg_k,
            tname(t),
            im.mode,
            compact,
            ooo,
            model.coupons.len(),
            im.aux.len(),
            im.cur_min
        );
        ctx.cover(&format!("hll_{}_mode{}_{}", tname(t), im.mode, if compact { "compact" } else { "updatable" }));
        if ooo {
            ctx.cover("hll_ooo_image");
        }
        if !im.aux.is_empty() {
            ctx.cover(if compact { "hll4_aux_compact_list" } else { "hll4_aux_updatable_table" });
        }
        ctx.evals(1);
        let sk = match HllSketch::deserialize(&bytes) {
            Ok(s) => s,
            Err(e) => {
                ctx.violation("HLL: valid image rejected", format!("{}: {} (image {})", what, e, hex(&bytes[..bytes.len().min(40)])));
                continue;
            }
        };
        let st = sk.verif_state();
        let mut problems = vec![];
        if sk.lg_config_k() != lg_k || sk.target_type() != t {
            problems.push(format!("lg_k {} type {}", sk.lg_config_k(), tname(sk.target_type())));
        }
        if sk.is_empty() != model.is_empty() {
            problems.push(format!("is_empty {} but {} coupons were encoded", sk.is_empty(), model.coupons.len()));
        }
        if as_array {
            if st.mode != 2 {
                problems.push(format!("decoded mode {}", st.mode));
            } else {
                if st.registers != model.regs {
                    let nbad = st.registers.iter().zip(model.regs.iter()).filter(|(a, b)| a != b).count();
                    problems.push(format!("{} of {} registers differ from the encoded ones", nbad, k));
                }
                if st.out_of_order != ooo {
                    problems.push(format!("out-of-order flag {} want {}", st.out_of_order, ooo));
                }
                if st.cur_min != im.cur_min || st.num_at_cur_min != im.num_at_cur_min {
                    problems.push(format!("cur_min/num_at_cur_min {} {} want {} {}", st.cur_min, st.num_at_cur_min, im.cur_min, im.num_at_cur_min));
                }
                let mut aux = st.aux.clone();
                aux.sort_unstable();
                if bits == 4 && aux != im.aux {
                    problems.push(format!("aux entries {} want {}", aux.len(), im.aux.len()));
                }
                if !ooo {
                    if !rel_close(sk.estimate(), im.hip, 1e-12) {
                        problems.push(format!("in-order image: estimate {} but encoded HIP {}", sk.estimate(), im.hip));
                    }
                } else {
                    let est = sk.estimate();
                    let band = 8.0 * 1.04 / (k as f64).sqrt() + 3.0 / n_true.max(1.0);
                    // the composite estimator works from the registers: compare with the number of encoded coupons
                    // only when the registers come from hash-like coupons alone (no artificial floor)
                    if !(est > 0.0) || !est.is_finite() {
                        problems.push(format!("out-of-order image: estimate {}", est));
                    } else if !artificial && (est / n_true).ln().abs() > band {
                        problems.push(format!("out-of-order image: estimate {} for {} coupons", est, n_true));
                    }
                }
            }
        } else {
            let mut got: Vec<u32> = st.coupon_table.iter().copied().filter(|&c| c != 0).collect();
            got.sort_unstable();
            let want: Vec<u32> = model.coupons.iter().copied().collect();
            if st.mode != im.mode || got != want || st.coupon_count != want.len() {
                problems.push(format!("mode {} coupons {} (count {}) want mode {} coupons {}", st.mode, got.len(), st.coupon_count, im.mode, want.len()));
            }
        }
        let lb = sk.lower_bound(NumStdDev::Two);
        let ub = sk.upper_bound(NumStdDev::Two);
        if !(lb <= sk.estimate() * (1.0 + 1e-12) && sk.estimate() <= ub * (1.0 + 1e-12)) {
            problems.push(format!("bounds {} {} not around the estimate {}", lb, ub, sk.estimate()));
        }
        if !problems.is_empty() {
            ctx.violation("HLL: decoded sketch != encoded state", format!("{}: {}", what, problems.join("; ")));
        }
        // re-serialization must encode the same state
        match spec::hll::decode(&sk.serialize()) {
            Ok((back, _)) => {
                let same = back.lg_k == im.lg_k && back.target_bits == im.target_bits && back.coupons == im.coupons && back.regs == im.regs && back.ooo == im.ooo;
                if !same {
                    ctx.violation("HLL: re-serialized image encodes another state", what.clone());
                }
            }
            Err(e) => ctx.violation("HLL: re-serialized image does not follow the layout", format!("{}: {}", what, e)),
        }
        // set operation: union with a natively built sketch
        let mut other = HllSketch::new(lg_k, *rng.pick(&TYPES));
        let mut um = UnionModel::new(lg_k);
        if as_array {
            um.add_array(lg_k, &model.regs);
        } else {
            for &c in &model.coupons {
                um.add_coupon(c);
            }
        }
        let n_other = rng.usize(0, 3 * k);
        let mut om = HllModel::new(lg_k);
        for _ in 0..n_other {
            let c = hm::make_coupon(rng.next_u32() & hm::KEY_MASK_26, (rng.geometric(62) + 1) as u8);
            other.verif_update_with_coupon(c);
            om.offer(c);
        }
        let other_is_array = other.verif_state().mode == 2;
        if other_is_array {
            um.add_array(lg_k, &om.regs);
        } else {
            for &c in &om.coupons {
                um.add_coupon(c);
            }
        }
        let mut u = HllUnion::new(lg_k);
        u.update(&sk);
        u.update(&other);
        let r = u.to_sketch(HllType::Hll8);
        check_union_state(ctx, &r.verif_state(), &um, HllType::Hll8, &format!("{} united with a native sketch of {} coupons", what, n_other));
        if !model.is_empty() && !(u.estimate() > 0.0) {
            ctx.violation("HLL: union with a decoded sketch estimates zero", what.clone());
        }
        // further updates follow the model
        let mut sk2 = sk.clone();
        let mut m2 = model.clone();
        for _ in 0..rng.usize(1, 40) {
            let c = hm::make_coupon(rng.next_u32() & hm::KEY_MASK_26, (rng.geometric(62) + 1) as u8);
            sk2.verif_update_with_coupon(c);
            m2.offer(c);
        }
        if as_array || sk2.verif_state().mode < 2 {
            check_state(ctx, &sk2.verif_state(), &m2, t, &format!("{} after further updates", what));
        } else {
            // promoted during the updates: registers must be those of all coupons
            if sk2.verif_state().registers != m2.regs {
                ctx.violation("HLL: decoded sketch diverges from the model under further updates", what.clone());
            }
        }
        decoded.push(sk);
    }
    if decoded.len() == 2 {
        // the compact and the updatable form are two representations of one sketch
        let a = &decoded[0];
        let b = &decoded[1];
        ctx.evals(1);
        if a != b || !rel_close(a.estimate(), b.estimate(), 1e-12) {
            ctx.violation(
                "HLL: compact and updatable image of one state decode to different sketches",
                format!("lg_k={} {} mode={} coupons={} estimates {} {}", lg_k, tname(t), im.mode, model.coupons.len(), a.estimate(), b.estimate()),
            );
        }
    }
    ctx.end_case(fp.get(), !model.is_empty());
}

// ------------------------------------------------------------------------------------------------
// Theta

fn theta_case(ctx: &mut Ctx, case: &Json) {
    let mut rng = Rng::new(case.u64("seed").unwrap_or(0));
    let mut seed = *rng.pick(&[9001u64, 9001, 0, 123456789, u64::MAX]);
    if refhash::seed_hash(seed) == 0 {
        seed = 9001;
    }
    let sh = refhash::seed_hash(seed);
    let n = match rng.below(6) {
        0 => 0usize,
        1 => 1,
        2 => rng.usize(2, 9),
        _ => rng.usize(2, 3000),
    };
    let n = case.u64("force_n").map(|x| x as usize).unwrap_or(n);
    let estimating = case.bool("force_estimating").unwrap_or(n > 0 && rng.chance(0.5) || (n == 0 && rng.chance(0.2)));
    let theta = if estimating { (spec::theta::MAX_THETA as f64 * (0.001 + rng.f64() * 0.99)) as u64 } else { spec::theta::MAX_THETA };
    let mut set = BTreeSet::new();
    while set.len() < n {
        let h = 1 + rng.below(theta - 1);
        set.insert(h);
    }
    let mut entries: Vec<u64> = set.iter().copied().collect();
    rng.shuffle(&mut entries);
    let empty = n == 0 && !estimating;
    let mut variants: Vec<(String, spec::theta::ThetaVariant)> = vec![];
    let v = |ser_ver, unordered, java_p, single_flag| spec::theta::ThetaVariant { ser_ver, unordered, java_p, single_flag };
    variants.push(("v3 ordered (C++ p=0)".into(), v(3, false, false, false)));
    variants.push(("v3 ordered (Java p=1.0f)".into(), v(3, false, true, false)));
    variants.push(("v3 unordered".into(), v(3, true, rng.chance(0.5), false)));
    if n == 1 && !estimating {
        variants.push(("v3 single item with SINGLE_ITEM flag".into(), v(3, false, false, true)));
    }
    variants.push(("v2".into(), v(2, false, true, false)));
    if !(n == 0 && estimating) || true {
        variants.push(("v1".into(), v(1, false, false, false)));
    }
    if n > 0 && !(n == 1 && !estimating) {
        variants.push(("v4 compressed".into(), v(4, false, false, false)));
    }
    let mut fp = Fp::new();
    let mut ests = vec![];
    for (name, var) in variants {
        let bytes = spec::theta::encode(theta, &entries, empty, sh, var);
        fp.bytes(&bytes[..bytes.len().min(128)]);
        let what = format!("theta image [{}] n={} theta={} estimating={} seed={}", name, n, theta, estimating, seed);
        ctx.cover(&format!("theta_variant_{}", name.split(' ').next().unwrap()));
        ctx.cover(if empty { "theta_empty" } else if n == 1 && !estimating { "theta_single" } else if estimating { "theta_estimating" } else { "theta_exact" });
        ctx.evals(1);
        let c = match CompactThetaSketch::deserialize_with_seed(&bytes, seed) {
            Ok(c) => c,
            Err(e) => {
                ctx.violation("theta: valid image rejected", format!("{}: {} (image {})", what, e, hex(&bytes[..bytes.len().min(32)])));
                continue;
            }
        };
        let mut problems = vec![];
        let got: BTreeSet<u64> = c.iter().collect();
        if got != set || c.num_retained() != n {
            problems.push(format!("entries {} (retained {}) want {}", got.len(), c.num_retained(), n));
        }
        let want_theta = if var.ser_ver == 1 && n == 0 && !estimating { spec::theta::MAX_THETA } else { theta };
        if c.theta64() != want_theta {
            problems.push(format!("theta {} want {}", c.theta64(), want_theta));
        }
        // a v1 image has no EMPTY flag: empty iff no entries and theta = 1.0
        if c.is_empty() != empty {
            problems.push(format!("is_empty {} want {}", c.is_empty(), empty));
        }
        let want_est = if empty { 0.0 } else { n as f64 / (theta as f64 / spec::theta::MAX_THETA as f64) };
        if !rel_close(c.estimate(), want_est, 1e-12) {
            problems.push(format!("estimate {} want {}", c.estimate(), want_est));
        }
        if c.is_estimation_mode() != (theta < spec::theta::MAX_THETA) {
            problems.push("is_estimation_mode".into());
        }
        let ordered_img = !(var.ser_ver == 3 && var.unordered) || empty || (n == 1 && !estimating);
        if ordered_img {
            let order: Vec<u64> = c.iter().collect();
            if !c.is_ordered() || order.windows(2).any(|w| w[0] >= w[1]) {
                problems.push("an ordered image must decode to an ordered sketch".into());
            }
        } else if c.is_ordered() && n > 1 {
            let order: Vec<u64> = c.iter().collect();
            if order.windows(2).any(|w| w[0] >= w[1]) {
                problems.push("decoded sketch claims to be ordered but is not".into());
            }
        }
        // (a serial version 1 image stores no seed hash: the sketch carries the hash of the seed it was read with)
        if !empty && c.seed_hash() != sh {
            problems.push(format!("seed hash {:04x} want {:04x}", c.seed_hash(), sh));
        }
        let (lb, ub) = (c.lower_bound(NumStdDev::Two), c.upper_bound(NumStdDev::Two));
        if !(lb <= c.estimate() * (1.0 + 1e-12) && c.estimate() <= ub * (1.0 + 1e-12)) || (!estimating && (lb != n as f64 || ub != n as f64)) {
            problems.push(format!("bounds {} {} estimate {}", lb, ub, c.estimate()));
        }
        if !problems.is_empty() {
            ctx.violation("theta: decoded sketch != encoded state", format!("{}: {}", what, problems.join("; ")));
        }
        // re-serialization (both forms) must encode the same state
        for (form, img) in [("v3", c.serialize()), ("compressed", c.serialize_compressed())] {
            match spec::theta::decode(&img) {
                Ok((back, _)) => {
                    let bs: BTreeSet<u64> = back.entries.iter().copied().collect();
                    let want_theta = if c.is_empty() { spec::theta::MAX_THETA } else { theta };
                    if bs != set || back.theta != want_theta || back.empty != empty || (!empty && back.seed_hash != sh) {
                        ctx.violation("theta: re-serialized image encodes another state", format!("{} -> {} (seed hash {:04x}, want {:04x})", what, form, back.seed_hash, sh));
                    }
                    if let Err(e) = spec::theta::check_semantics(&back) {
                        ctx.violation("theta: re-serialized image is not a valid image", format!("{} -> {}: {}", what, form, e));
                    }
                }
                Err(e) => ctx.violation("theta: re-serialized image does not follow the layout", format!("{} -> {}: {}", what, form, e)),
            }
        }
        ests.push(c.estimate());
    }
    ctx.evals(1);
    if ests.windows(2).any(|w| !rel_close(w[0], w[1], 1e-12)) {
        ctx.violation("theta: variants of one state decode to different estimates", format!("n={} theta={}: {:?}", n, theta, ests));
    }
    // wrong seed must be rejected for non-empty images (the seed hash is there for that)
    if n > 0 {
        let bytes = spec::theta::encode(theta, &entries, empty, sh, v(3, false, false, false));
        let other_seed = seed ^ 0x5555;
        if refhash::seed_hash(other_seed) != 0 && refhash::seed_hash(other_seed) != sh && CompactThetaSketch::deserialize_with_seed(&bytes, other_seed).is_ok() {
            ctx.violation("theta: image accepted with a different seed", format!("seed {} vs {}", seed, other_seed));
        }
    }
    ctx.end_case(fp.get(), n > 0);
}

// ------------------------------------------------------------------------------------------------
// CPC

fn cpc_case(ctx: &mut Ctx, case: &Json) {
    let mut rng = Rng::new(case.u64("seed").unwrap_or(0));
    let lg_k = rng.range(4, case.u64("max_lg").unwrap_or(11)) as u8;
    let k = 1u64 << lg_k;
    let flavor = rng.below(5);
    let c = match flavor {
        0 => 0,
        1 => rng.range(1, ((3 * k) / 32).max(2) - 1).max(1),
        2 => rng.range((3 * k).div_ceil(32), k / 2 - 1),
        3 => rng.range(k / 2, 27 * k / 8 - 1),
        _ => {
            let mult = rng.range(4, 58);
            rng.range((27 * k).div_ceil(8), cm::max_coupons_in_envelope(lg_k).min(k * mult))
        }
    };
    let order = cm::natural_order(&mut rng, lg_k, c);
    let mut model = cm::CpcModel::new(lg_k);
    for &rc in &order {
        model.offer(rc);
    }
    let has_hip = rng.chance(0.6);
    let im = spec::cpc::CpcImage {
        lg_k,
        seed_hash: refhash::seed_hash(9001),
        first_interesting_column: 0,
        num_coupons: c as u32,
        has_hip,
        kxp: model.kxp,
        hip_accum: model.hip,
        flags: 0,
        preamble_ints: 0,
        window_offset: 0,
        matrix: model.matrix.clone(),
    };
    // the canonical first-interesting-column and, as Java/C++ sketches often carry, a smaller (older) one
    let canon = spec::cpc::canonical_fic(&model.matrix, cm::correct_offset(lg_k, c));
    let fics = [None, if canon > 0 { Some(rng.below(canon as u64 + 1) as u8) } else { None }];
    let mut fp = Fp::new();
    for fic in fics {
        let bytes = match spec::cpc::try_encode(&im, fic) {
            Ok(b) => b,
            Err(e) => {
                ctx.inconclusive(format!("CPC spec encoder refused a state: {}", e));
                return;
            }
        };
        fp.bytes(&bytes[..bytes.len().min(256)]);
        let what = format!("CPC image lg_k={} C={} flavor={} offset={} hip={} fic={:?}", lg_k, c, cm::flavor(lg_k, c), cm::correct_offset(lg_k, c), has_hip, fic);
        ctx.cover(&format!("cpc_flavor_{}_{}", cm::flavor(lg_k, c), if has_hip { "hip" } else { "merged" }));
        ctx.cover(&format!("cpc_offset_{:02}", cm::correct_offset(lg_k, c)));
        ctx.evals(1);
        let mut sk = match CpcSketch::deserialize(&bytes) {
            Ok(s) => s,
            Err(e) => {
                ctx.violation("CPC: valid image rejected", format!("{}: {}", what, e));
                continue;
            }
        };
        check_cpc_state(ctx, &sk, &model.matrix, None, &what);
        let st = sk.verif_state();
        if c > 0 {
            if st.merge_flag == has_hip {
                ctx.violation("CPC: decoded sketch != encoded state", format!("{}: merge flag {}", what, st.merge_flag));
            }
            if has_hip && (!rel_close(sk.estimate(), model.hip, 1e-12) || st.kxp.to_bits() != model.kxp.to_bits()) {
                ctx.violation("CPC: decoded sketch != encoded state", format!("{}: estimate {} kxp {} want HIP {} kxp {}", what, sk.estimate(), st.kxp, model.hip, model.kxp));
            }
            if !has_hip && !(sk.estimate() >= c as f64 * 0.999) {
                ctx.violation("CPC: decoded sketch != encoded state", format!("{}: merged estimate {} below the coupon count", what, sk.estimate()));
            }
        }
        match CpcWrapper::new(&bytes) {
            Ok(w) => {
                if w.lg_k() != lg_k || w.is_empty() != (c == 0) || !rel_close(w.estimate(), sk.estimate(), 1e-12) {
                    ctx.violation("CPC: CpcWrapper disagrees with the decoded sketch", format!("{}: {} vs {}", what, w.estimate(), sk.estimate()));
                }
            }
            Err(e) => ctx.violation("CPC: valid image rejected by CpcWrapper", format!("{}: {}", what, e)),
        }
        match spec::cpc::decode(&sk.serialize()) {
            Ok((back, _)) => {
                if back.matrix != model.matrix || (c > 0 && back.has_hip != has_hip) {
                    ctx.violation("CPC: re-serialized image encodes another state", what.clone());
                }
            }
            Err(e) => ctx.violation("CPC: re-serialized image does not follow the layout", format!("{}: {}", what, e)),
        }
        // further updates follow the model (HIP too when the image carried it)
        let mut m2 = model.clone();
        for _ in 0..rng.usize(1, 300) {
            if m2.num_coupons >= cm::max_coupons_in_envelope(lg_k) {
                break;
            }
            let rc = ((rng.next_u32() % k as u32) << 6) | rng.geometric(63).min((m2.offset as u32 + 16).min(63));
            sk.verif_row_col_update(rc);
            m2.offer(rc);
        }
        let hip = if has_hip { Some((m2.kxp, m2.hip, m2.kxp_scale, m2.hip_slack)) } else { None };
        check_cpc_state(ctx, &sk, &m2.matrix, hip, &format!("{} after further updates", what));
    }
    ctx.end_case(fp.get(), c > 0);
}

// ------------------------------------------------------------------------------------------------
// t-digest, Bloom, Count-Min, Frequent Items

fn td_case(ctx: &mut Ctx, case: &Json) {
    let mut rng = Rng::new(case.u64("seed").unwrap_or(0));
    // the image classes of C10 plus the two short forms (8-byte empty image, header + one value)
    let ty = (case.u64("ty").unwrap_or(0) as usize) % (IMAGE_CLASSES.len() + 2);
    let class = if ty < IMAGE_CLASSES.len() { IMAGE_CLASSES[ty] } else if ty == IMAGE_CLASSES.len() { "single-value" } else { "empty" };
    let k = *rng.pick(&[10u16, 30, 100, 200, 500]);
    let im = match class {
        "single-value" => {
            let v = (rng.normal() * 1000.0 * 8.0).round() / 8.0;
            spec::tdigest::TdImage { k, empty: false, single: true, reverse_merge: rng.chance(0.5), min: v, max: v, centroids: vec![(v, 1)], buffered: vec![] }
        }
        "empty" => spec::tdigest::TdImage { k, empty: true, single: false, reverse_merge: false, min: f64::INFINITY, max: f64::NEG_INFINITY, centroids: vec![], buffered: vec![] },
        _ => synth_image(&mut rng, class, k),
    };
    let f = |x: f64| (x as f32) as f64;
    let mut fp = Fp::new();
    for encoding in ["native-double", "native-float", "reference-double", "reference-float"] {
        if encoding.starts_with("reference") && (!im.buffered.is_empty() || im.centroids.is_empty()) {
            continue;
        }
        let (bytes, is_f32) = match encoding {
            "native-double" => (spec::tdigest::encode_native(&im, false), false),
            "native-float" => (spec::tdigest::encode_native(&im, true), true),
            "reference-double" => (spec::tdigest::encode_ref_double(&im), false),
            _ => (spec::tdigest::encode_ref_float(&im), false),
        };
        fp.bytes(&bytes[..bytes.len().min(128)]);
        let what = format!("t-digest image class={} encoding={} k={} centroids={} buffered={}", class, encoding, k, im.centroids.len(), im.buffered.len());
        ctx.cover(&format!("td_{}", encoding));
        ctx.cover(&format!("td_class_{}", class));
        ctx.evals(1);
        let mut d = match TDigestMut::deserialize(&bytes, is_f32) {
            Ok(d) => d,
            Err(e) => {
                ctx.violation("t-digest: valid image rejected", format!("{}: {}", what, e));
                continue;
            }
        };
        let float_means = encoding.ends_with("float");
        let (emin, emax) = if encoding == "native-float" { (f(im.min), f(im.max)) } else { (im.min, im.max) };
        let mut problems = vec![];
        if im.centroids.is_empty() {
            if !d.is_empty() || d.k() != k || d.total_weight() != 0 || d.min_value().is_some() || d.quantile(0.5).is_some() {
                problems.push("empty image does not decode to an empty digest".to_string());
            }
        } else if d.k() != k || d.total_weight() != im.total_weight() || d.min_value() != Some(emin) || d.max_value() != Some(emax) {
            problems.push(format!("k {} total {} min {:?} max {:?} want {} {} {} {}", d.k(), d.total_weight(), d.min_value(), d.max_value(), k, im.total_weight(), emin, emax));
        }
        if im.buffered.is_empty() {
            // nothing to compress: the centroid list must come back exactly
            match spec::tdigest::decode_native(&d.serialize(), false) {
                Ok((back, _)) => {
                    let want: Vec<(f64, u64)> = im.centroids.iter().map(|c| (if float_means { f(c.0) } else { c.0 }, c.1)).collect();
                    if back.centroids != want {
                        problems.push(format!("centroids {:?} want {:?}", &back.centroids[..back.centroids.len().min(4)], &want[..want.len().min(4)]));
                    }
                    // the merge direction is part of the state a reader takes over (the reference encodings do not
                    // carry it); an empty digest has made no pass yet
                    if encoding.starts_with("native") && !im.centroids.is_empty() && back.reverse_merge != im.reverse_merge {
                        problems.push(format!("merge-direction flag {} after read + re-serialization, image had {}", back.reverse_merge, im.reverse_merge));
                    }
                }
                Err(e) => problems.push(format!("re-serialized image does not decode: {}", e)),
            }
        }
        if !problems.is_empty() {
            ctx.violation("t-digest: decoded digest != encoded state", format!("{}: {}", what, problems.join("; ")));
        }
    }
    ctx.end_case(fp.get(), true);
}

fn small_case(ctx: &mut Ctx, case: &Json) {
    let mut rng = Rng::new(case.u64("seed").unwrap_or(0));
    let mut fp = Fp::new();
    // ---- Bloom: clean and dirty bit counts, empty form and full form of an all-zero filter
    {
        let words_n = rng.usize(1, 40);
        let nh = rng.range(1, 12) as u16;
        let seed = rng.next_u64();
        let words: Vec<u64> = (0..words_n).map(|_| if rng.chance(0.2) { 0 } else { rng.next_u64() & rng.next_u64() }).collect();
        let pop: u64 = words.iter().map(|w| w.count_ones() as u64).sum();
        for (dirty, empty_form) in [(false, true), (true, true), (false, false)] {
            let bytes = spec::small::encode_bloom(nh, seed, &words, dirty, empty_form);
            fp.bytes(&bytes[..bytes.len().min(64)]);
            let what = format!("Bloom image words={} hashes={} popcount={} dirty={} empty_form={}", words_n, nh, pop, dirty, empty_form);
            ctx.cover(if dirty { "bloom_dirty_count" } else { "bloom_clean_count" });
            ctx.evals(1);
            match BloomFilter::deserialize(&bytes) {
                Err(e) => ctx.violation("Bloom: valid image rejected", format!("{}: {}", what, e)),
                Ok(f) => {
                    let back = spec::small::decode_bloom(&f.serialize());
                    let ok = f.bits_used() == pop
                        && f.capacity() == words_n * 64
                        && f.num_hashes() == nh
                        && f.seed() == seed
                        && f.is_empty() == (pop == 0)
                        && match &back {
                            Ok((b, _)) => (pop == 0 && b.empty) || (b.words == words && b.num_bits_set == pop),
                            Err(_) => false,
                        };
                    if !ok {
                        ctx.violation("Bloom: decoded filter != encoded state", format!("{}: bits_used {} capacity {} reserialized ok {}", what, f.bits_used(), f.capacity(), back.is_ok()));
                    }
                }
            }
        }
    }
    // ---- Count-Min (u64 and i32 counters)
    {
        let nh = rng.range(1, 6) as u8;
        let nb = rng.range(3, 40) as u32;
        // a valid table: every row distributes the same total weight over its buckets
        let total: i128 = rng.below(5000) as i128;
        let mut counts: Vec<i128> = vec![0; nh as usize * nb as usize];
        for row in 0..nh as usize {
            let mut left = total;
            for b in 0..nb as usize {
                let c = if b + 1 == nb as usize { left } else { rng.below(left as u64 + 1) as i128 };
                counts[row * nb as usize + b] = c;
                left -= c;
            }
        }
        let bytes = spec::small::encode_cm(nb, nh, refhash::seed_hash(9001), total, &counts);
        fp.bytes(&bytes[..bytes.len().min(64)]);
        ctx.evals(2);
        match CountMinSketch::<u64>::deserialize(&bytes) {
            Err(e) => ctx.violation("CountMin: valid image rejected", format!("{}x{} total {}: {}", nh, nb, total, e)),
            Ok(s) => {
                if s.total_weight() as i128 != total || s.serialize() != bytes {
                    ctx.violation("CountMin: decoded sketch != encoded state", format!("{}x{} total {} vs {}", nh, nb, s.total_weight(), total));
                }
            }
        }
        match CountMinSketch::<i32>::deserialize(&bytes) {
            Err(e) => ctx.violation("CountMin: valid image rejected", format!("i32 {}x{} total {}: {}", nh, nb, total, e)),
            Ok(s) => {
                if s.total_weight() as i128 != total || s.serialize() != bytes {
                    ctx.violation("CountMin: decoded sketch != encoded state", format!("i32 {}x{}", nh, nb));
                }
            }
        }
    }
    // ---- Frequent items: EMPTY flag written as 4 (Java), 1 (older C++) or 5; non-empty longs and strings
    {
        for flag in [4u8, 1, 5] {
            let im = spec::small::FiImage { lg_max: rng.range(3, 10) as u8, lg_cur: 3, empty: true, stream_weight: 0, offset: 0, counts: vec![], items: spec::small::FiItems::Longs(vec![]) };
            let bytes = spec::small::encode_fi(&im, flag);
            ctx.evals(1);
            ctx.cover(&format!("fi_empty_flag_{}", flag));
            match FrequentItemsSketch::<i64>::deserialize(&bytes) {
                Ok(s) => {
                    if !s.is_empty() || s.total_weight() != 0 || s.lg_max_map_size() != im.lg_max {
                        ctx.violation("FrequentItems: decoded sketch != encoded state", format!("empty image with flag {}", flag));
                    }
                }
                Err(e) => ctx.violation("FrequentItems: valid image rejected", format!("empty image with flag {}: {}", flag, e)),
            }
        }
        let lg_max = rng.range(3, 9) as u8;
        let cap = ((1usize << lg_max) * 3) / 4;
        let n = rng.usize(0, cap);
        let mut items = BTreeSet::new();
        while items.len() < n {
            items.insert(rng.next_u64() >> rng.below(60));
        }
        let items: Vec<u64> = items.into_iter().collect();
        let counts: Vec<u64> = (0..n).map(|_| 1 + rng.below(1000)).collect();
        let offset = rng.below(50);
        let weight: u64 = counts.iter().sum::<u64>() + offset * 3 + 1;
        let mut lg_cur = 3u8;
        while ((1usize << lg_cur) * 3) / 4 < n {
            lg_cur += 1;
        }
        let im = spec::small::FiImage { lg_max, lg_cur, empty: false, stream_weight: weight, offset, counts: counts.clone(), items: spec::small::FiItems::Longs(items.clone()) };
        let bytes = spec::small::encode_fi(&im, 4);
        fp.bytes(&bytes[..bytes.len().min(64)]);
        ctx.evals(1);
        ctx.cover(if n == 0 { "fi_nonempty_image_with_no_counters" } else { "fi_longs_image" });
        match FrequentItemsSketch::<u64>::deserialize(&bytes) {
            Err(e) => ctx.violation("FrequentItems: valid image rejected", format!("lg_max {} n {} offset {}: {}", lg_max, n, offset, e)),
            Ok(s) => {
                let mut ok = s.total_weight() == weight && s.maximum_error() == offset && s.num_active_items() == n;
                for (it, c) in items.iter().zip(counts.iter()) {
                    if s.lower_bound(it) != *c || s.upper_bound(it) != *c + offset {
                        ok = false;
                    }
                }
                if !ok {
                    ctx.violation("FrequentItems: decoded sketch != encoded state", format!("lg_max {} n {} offset {} weight {}: total {} max_err {} active {}", lg_max, n, offset, weight, s.total_weight(), s.maximum_error(), s.num_active_items()));
                }
            }
        }
        // strings (UTF-8, incl. empty string)
        let strs: Vec<Vec<u8>> = (0..n.min(20)).map(|i| format!("{}é{}", "x".repeat(i % 5), i).into_bytes()).collect();
        let im = spec::small::FiImage { lg_max, lg_cur, empty: false, stream_weight: weight, offset, counts: counts[..strs.len()].to_vec(), items: spec::small::FiItems::Strings(strs.clone()) };
        let bytes = spec::small::encode_fi(&im, 4);
        ctx.evals(1);
        match FrequentItemsSketch::<String>::deserialize(&bytes) {
            Err(e) => ctx.violation("FrequentItems: valid image rejected", format!("strings lg_max {} n {}: {}", lg_max, strs.len(), e)),
            Ok(s) => {
                let mut ok = s.total_weight() == weight && s.maximum_error() == offset && s.num_active_items() == strs.len();
                for (it, c) in strs.iter().zip(counts.iter()) {
                    if s.lower_bound(&String::from_utf8(it.clone()).unwrap()) != *c {
                        ok = false;
                    }
                }
                if !ok {
                    ctx.violation("FrequentItems: decoded sketch != encoded state", format!("strings lg_max {} n {}", lg_max, strs.len()));
                }
            }
        }
    }
    ctx.end_case(fp.get(), true);
}

pub fn run_case(ctx: &mut Ctx, case: &Json) {
    ctx.begin_case(case.clone());
    let fam = case.str("family").unwrap_or("").to_string();
    let r = rt::guard(|| match fam.as_str() {
        "hll" => hll_case(ctx, case),
        "theta" => theta_case(ctx, case),
        "cpc" => cpc_case(ctx, case),
        "tdigest" => td_case(ctx, case),
        "small" => small_case(ctx, case),
        other => ctx.inconclusive(format!("C13: unknown family {:?}", other)),
    });
    if let Err(p) = r {
        ctx.panic_violation(&format!("{} image", fam), &p);
    }
}

pub fn run(ctx: &mut Ctx) {
    ctx.note(
        "rule",
        Json::Str(
            "one case = one random abstract state of one family, written by the harness's spec encoder in every variant the \
             Java/C++ writers use (HLL: LIST/SET/HLL4/6/8 in compact and updatable form, aux list vs aux hash table, \
             out-of-order flag, cur_min > 0; theta: serial versions 1-4, empty / single item with and without the flag / \
             exact / estimating, ordered and unordered, Java and C++ padding; CPC: all flavors with and without HIP, stale \
             first-interesting-column; t-digest: nine image classes x four encodings; Bloom clean/dirty counts; Count-Min; \
             Frequent Items longs/strings and three EMPTY flag conventions), deserialized by the library and compared with \
             the encoded state, then united / updated / re-serialized. distinct = fingerprint of the images; non-trivial \
             = non-empty state"
                .into(),
        ),
    );
    if ctx.shard == 0 {
        // explicit witnesses of fixed findings
        for bits in [4u64, 6, 8] {
            run_case(ctx, &Json::obj().set("family", "hll").set("scenario", "hll_array_images").set("force_lg_k", 8u64).set("force_bits", bits).set("force_n", 5000u64).set("seed", 5u64));
        }
        for n in [1u64, 3, 50] {
            run_case(ctx, &Json::obj().set("family", "theta").set("scenario", "theta_exact_all_versions").set("force_n", n).set("force_estimating", false).set("seed", 6u64));
        }
    }
    // entry counts that need a third byte in the compressed (serial version 4) form
    for (i, n) in [65_535u64, 65_536, 70_000].into_iter().enumerate() {
        if (1 + i) % ctx.nshards == ctx.shard {
            for est in [false, true] {
                run_case(ctx, &Json::obj().set("family", "theta").set("force_n", n).set("force_estimating", est).set("seed", rt::mix(&[ctx.seed, n, est as u64])));
            }
            ctx.cover("theta_more_than_65535_entries");
        }
    }
    let scale = ctx.tier_pick(20u64, 800);
    let fams: [(&str, u64); 5] = [("hll", 40), ("theta", 40), ("cpc", 16), ("tdigest", 18), ("small", 20)];
    for (fam, n) in fams {
        for i in 0..n * scale {
            let case = Json::obj().set("family", fam).set("seed", ctx.case_seed(fam, i)).set("ty", i);
            run_case(ctx, &case);
            if i == 0 {
                ctx.sample(case);
            }
        }
    }
}

pub fn replay(ctx: &mut Ctx, case: &Json) {
    run_case(ctx, case);
}
