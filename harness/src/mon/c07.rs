//! C07 — frequent-items bounds always bracket the true count, across updates and merges.

use std::collections::{HashMap, HashSet};
use std::hash::Hash;

use datasketches::frequencies::{ErrorType, FrequentItemValue, FrequentItemsSketch};

use crate::rt::{self, Ctx, Fp, Json, Rng};

/// How a domain index becomes an item of the type under test.
pub trait Item: FrequentItemValue + Eq + Hash + Clone + std::fmt::Debug {
    fn make(i: u64, salt: u64) -> Self;
    const NAME: &'static str;
}
impl Item for i64 {
    fn make(i: u64, salt: u64) -> Self {
        (i as i64).wrapping_mul(0x9E37_79B9).wrapping_sub((salt % 1000) as i64) * if i % 2 == 0 { 1 } else { -1 }
    }
    const NAME: &'static str = "i64";
}
impl Item for u64 {
    fn make(i: u64, salt: u64) -> Self {
        i.wrapping_mul(0x9E37_79B9_7F4A_7C15) ^ salt
    }
    const NAME: &'static str = "u64";
}
impl Item for String {
    fn make(i: u64, salt: u64) -> Self {
        match i % 4 {
            0 => format!("item-{}", i),
            1 => format!("{}:{}", salt % 97, i),
            2 => format!("é-{}-日本", i),
            _ => format!("{:x}", i.wrapping_mul(0x1234_5678_9abc_def1)),
        }
    }
    const NAME: &'static str = "String";
}

/// exact model of one sketch: true frequency per domain index, total weight, the map sizes involved
#[derive(Clone)]
pub struct FiModel {
    pub truth: HashMap<u64, u64>,
    pub total: u64,
    pub sizes: HashSet<usize>,
    /// the size this sketch itself was configured with (merging never changes it)
    pub own_size: usize,
}

impl FiModel {
    pub fn new(size: usize) -> FiModel {
        let mut sizes = HashSet::new();
        sizes.insert(size);
        FiModel { truth: HashMap::new(), total: 0, sizes, own_size: size }
    }
    pub fn add(&mut self, i: u64, w: u64) {
        *self.truth.entry(i).or_insert(0) += w;
        self.total += w;
    }
    pub fn merge(&mut self, o: &FiModel) {
        for (k, v) in &o.truth {
            *self.truth.entry(*k).or_insert(0) += v;
        }
        self.total += o.total;
        for s in &o.sizes {
            self.sizes.insert(*s);
        }
    }
}

/// All point-wise and list-wise assertions of C07 for one sketch state.
pub fn check_fi<T: Item>(ctx: &mut Ctx, sk: &FrequentItemsSketch<T>, model: &FiModel, items: &[T], what: &str, rng: &mut Rng) {
    let domain = items.len() as u64;
    ctx.evals(1);
    let max_err = sk.maximum_error();
    let tag = format!("{} [{} size(s) {:?}]", what, T::NAME, {
        let mut v: Vec<usize> = model.sizes.iter().copied().collect();
        v.sort_unstable();
        v
    });
    if sk.total_weight() != model.total {
        ctx.violation("total_weight != exact stream weight", format!("{}: {} want {}", tag, sk.total_weight(), model.total));
    }
    {
        // documented: capacity = 0.75 * max_map_size, epsilon = 3.5 / max_map_size (the size is at least 8); a
        // sketch keeps its own configuration whatever was merged into it
        let size = model.own_size.max(8);
        if sk.maximum_map_capacity() != size * 3 / 4 || !rt::rel_close(sk.epsilon(), 3.5 / size as f64, 1e-12) {
            ctx.violation(
                "maximum_map_capacity / epsilon do not follow from the configured map size",
                format!("{}: capacity {} epsilon {} for size {}", tag, sk.maximum_map_capacity(), sk.epsilon(), size),
            );
        }
    }
    if sk.num_active_items() > sk.maximum_map_capacity() {
        ctx.violation(
            "num_active_items > maximum_map_capacity",
            format!("{}: {} > {}", tag, sk.num_active_items(), sk.maximum_map_capacity()),
        );
    }
    if model.sizes.len() == 1 && *model.sizes.iter().next().unwrap() <= 1024 {
        let bound = sk.epsilon() * model.total as f64;
        if max_err as f64 > bound * (1.0 + 1e-12) {
            ctx.violation(
                "maximum_error > epsilon * total_weight",
                format!("{}: maximum_error {} epsilon {} total {} bound {}", tag, max_err, sk.epsilon(), model.total, bound),
            );
        }
        ctx.cover_max("max_error_over_eps_total", if bound > 0.0 { max_err as f64 / bound } else { 0.0 });
    }
    // every item of the domain, seen or not, tracked or purged
    let mut n_bad = 0;
    for i in 0..domain {
        let item = &items[i as usize];
        let truth = *model.truth.get(&i).unwrap_or(&0);
        let lb = sk.lower_bound(item);
        let ub = sk.upper_bound(item);
        let est = sk.estimate(item);
        let ok = lb <= truth && truth <= ub && ub - lb.min(ub) <= max_err && (est == 0 || (lb <= est && est <= ub));
        if !ok {
            n_bad += 1;
            if n_bad <= 2 {
                let sig = if lb > truth {
                    "lower_bound > true frequency"
                } else if truth > ub {
                    "upper_bound < true frequency"
                } else if ub - lb.min(ub) > max_err {
                    "upper_bound - lower_bound > maximum_error"
                } else {
                    "estimate outside {0} u [lower_bound, upper_bound]"
                };
                ctx.violation(
                    sig,
                    format!("{}: item #{} {:?} truth {} lb {} est {} ub {} maximum_error {}", tag, i, item, truth, lb, est, ub, max_err),
                );
            }
        }
    }
    ctx.evals(domain);
    // lists
    let thresholds = [None, Some(max_err + rng.below(model.total / 8 + 2)), Some(0)];
    for th in thresholds {
        for et in [ErrorType::NoFalsePositives, ErrorType::NoFalseNegatives] {
            let rows = match th {
                None => sk.frequent_items(et),
                Some(t) => sk.frequent_items_with_threshold(et, t),
            };
            let threshold = th.unwrap_or(max_err).max(max_err);
            let mut seen: HashSet<T> = HashSet::new();
            let mut prev_est = u64::MAX;
            let mut listed: HashSet<T> = HashSet::new();
            for r in &rows {
                if !seen.insert(r.item().clone()) {
                    ctx.violation("frequent_items lists an item twice", format!("{}: {:?}", tag, r.item()));
                }
                if r.estimate() > prev_est {
                    ctx.violation("frequent_items rows not sorted by estimate", format!("{}: {} after {}", tag, r.estimate(), prev_est));
                }
                prev_est = r.estimate();
                if r.lower_bound() != sk.lower_bound(r.item()) || r.upper_bound() != sk.upper_bound(r.item()) || r.estimate() != sk.estimate(r.item()) {
                    ctx.violation(
                        "frequent_items row bounds differ from the point queries",
                        format!("{}: {:?} row ({},{},{}) point ({},{},{})", tag, r.item(), r.lower_bound(), r.estimate(), r.upper_bound(), sk.lower_bound(r.item()), sk.estimate(r.item()), sk.upper_bound(r.item())),
                    );
                }
                listed.insert(r.item().clone());
            }
            // compare with the truth
            let mut true_heavy: HashMap<T, u64> = HashMap::new();
            for i in 0..domain {
                let t = *model.truth.get(&i).unwrap_or(&0);
                if t > threshold {
                    true_heavy.insert(items[i as usize].clone(), t);
                }
            }
            match et {
                ErrorType::NoFalsePositives => {
                    for it in &listed {
                        if !true_heavy.contains_key(it) {
                            ctx.violation(
                                "frequent_items(NoFalsePositives) lists an item whose true count is not above the threshold",
                                format!("{}: {:?} threshold {}", tag, it, threshold),
                            );
                            break;
                        }
                    }
                }
                ErrorType::NoFalseNegatives => {
                    for (it, t) in &true_heavy {
                        if !listed.contains(it) {
                            ctx.violation(
                                "frequent_items(NoFalseNegatives) misses an item whose true count is above the threshold",
                                format!("{}: {:?} truth {} threshold {}", tag, it, t, threshold),
                            );
                            break;
                        }
                    }
                }
            }
            ctx.evals(1);
        }
    }
}

/// weights and items of one stream
fn gen_stream(rng: &mut Rng, shape: u64, n: usize, domain: u64) -> Vec<(u64, u64)> {
    let mut out = Vec::with_capacity(n);
    let zipf_s = 0.7 + rng.f64() * 1.3;
    // inverse-CDF table for zipf over the domain
    let mut cdf: Vec<f64> = vec![];
    if shape == 1 {
        let mut acc = 0.0;
        for r in 1..=domain {
            acc += 1.0 / (r as f64).powf(zipf_s);
            cdf.push(acc);
        }
    }
    let equal_w = *rng.pick(&[1u64, 1, 3, 1000]);
    for j in 0..n {
        let (i, w) = match shape {
            0 => (rng.below(domain), 1 + rng.below(3)),
            1 => {
                let u = rng.f64() * cdf[cdf.len() - 1];
                let idx = cdf.partition_point(|&c| c < u) as u64;
                (idx.min(domain - 1), 1)
            }
            2 => ((j as u64) % domain, 1 + rng.below(2)),  // all distinct (cyclic)
            3 => ((j as u64) % domain, equal_w),            // all-equal weights: purges that remove everything
            4 => {
                // a few heavy hitters in noise
                if rng.chance(0.3) {
                    (rng.below(5.min(domain)), 1 + rng.below(50))
                } else {
                    (rng.below(domain), 1)
                }
            }
            _ => (rng.below(domain), 1u64 << rng.below(41)), // weights up to 2^40
        };
        out.push((i, w));
    }
    out
}

/// lg of the configured maximum map size: any power of two is valid; sizes below 8 (a fifth of the draws) are
/// raised to 8 by the library
fn pick_lg_size(rng: &mut Rng) -> u64 {
    if rng.chance(0.2) {
        rng.range(0, 2)
    } else {
        rng.range(3, 11)
    }
}

fn run_typed<T: Item>(ctx: &mut Ctx, case: &Json) {
    let mut rng = Rng::new(case.u64("seed").unwrap_or(0));
    let n_sketches = case.u64("n_sketches").unwrap_or(1) as usize;
    let domain = case.u64("domain").unwrap_or(64);
    let salt = rng.next_u64();
    let items: Vec<T> = (0..domain).map(|i| T::make(i, salt)).collect();
    let same_size = rng.chance(0.6);
    let size0 = 1usize << pick_lg_size(&mut rng);
    let mut sketches: Vec<(FrequentItemsSketch<T>, FiModel)> = vec![];
    let mut fp = Fp::new();
    let mut descr: Vec<String> = vec![];
    for si in 0..n_sketches {
        let size = if same_size { size0 } else { 1usize << pick_lg_size(&mut rng) };
        let shape = case.u64("shape").unwrap_or_else(|| rng.below(6));
        let shape = if si == 0 { shape } else { rng.below(6) };
        let n = rng.usize(0, case.u64("max_n").unwrap_or(2000) as usize);
        let mut sk: FrequentItemsSketch<T> = FrequentItemsSketch::new(size);
        let mut model = FiModel::new(size);
        let stream = gen_stream(&mut rng, shape, n, domain);
        let mut last_err = 0;
        let mut n_purges = 0u64;
        let every = (n / 12).max(1);
        // a fifth of the sketches are reset somewhere along their stream and reused: a reset sketch is a new sketch
        let reset_at = if rng.chance(0.2) && n > 0 { Some(rng.usize(0, n - 1)) } else { None };
        for (j, &(i, w)) in stream.iter().enumerate() {
            if reset_at == Some(j) {
                let had_error = sk.maximum_error() > 0;
                sk.reset();
                model = FiModel::new(size);
                last_err = 0;
                ctx.cover(if had_error { "reset_after_purge" } else { "reset_before_any_purge" });
                check_fi(ctx, &sk, &model, &items, &format!("sketch {} size {} shape {} right after reset() at op {}", si, size, shape, j), &mut rng);
                if sk.maximum_error() != 0 || sk.total_weight() != 0 || sk.num_active_items() != 0 || !sk.is_empty() {
                    ctx.violation(
                        "reset() does not give back an empty sketch",
                        format!("size {} after reset at op {}: maximum_error {} total {} active {}", size, j, sk.maximum_error(), sk.total_weight(), sk.num_active_items()),
                    );
                }
            }
            if w == 1 && rng.chance(0.5) {
                sk.update(items[i as usize].clone());
            } else {
                sk.update_with_count(items[i as usize].clone(), w);
            }
            model.add(i, w);
            let e = sk.maximum_error();
            let purged = e != last_err;
            if purged {
                ctx.cover("purges");
                if sk.num_active_items() == 0 {
                    ctx.cover("purge_removed_every_counter");
                }
            }
            last_err = e;
            if purged {
                n_purges += 1;
            }
            // every purge at first, then a thinning sample of them (purges can number thousands)
            let purge_check = purged && (n_purges <= 24 || n_purges % (n_purges / 12) == 0 || sk.num_active_items() == 0);
            if purge_check || j % every == every - 1 {
                check_fi(ctx, &sk, &model, &items, &format!("sketch {} size {} shape {} after op {}", si, size, shape, j), &mut rng);
            }
        }
        check_fi(ctx, &sk, &model, &items, &format!("sketch {} size {} shape {} end", si, size, shape), &mut rng);
        descr.push(format!("size {} shape {} n {} active {} offset {}", size, shape, n, sk.num_active_items(), sk.maximum_error()));
        // some inputs travel through serialize/deserialize before being merged
        if rng.chance(0.4) {
            let bytes = sk.serialize();
            match FrequentItemsSketch::<T>::deserialize(&bytes) {
                Ok(d) => {
                    sk = d;
                    ctx.cover("input_roundtripped");
                    check_fi(ctx, &sk, &model, &items, &format!("sketch {} size {} after serialize/deserialize", si, size), &mut rng);
                }
                Err(e) => {
                    ctx.violation(
                        "a sketch's own image does not deserialize",
                        format!("size {} active {} offset {} total {}: {} (image {} bytes)", size, sk.num_active_items(), sk.maximum_error(), sk.total_weight(), e, bytes.len()),
                    );
                }
            }
        }
        fp.u64(size as u64);
        fp.u64(model.total);
        fp.u64(sk.maximum_error());
        sketches.push((sk, model));
    }
    // sometimes everything is merged into a fresh, never updated receiver of another size
    if rng.chance(0.2) {
        let size = 1usize << pick_lg_size(&mut rng);
        sketches.push((FrequentItemsSketch::new(size), FiModel::new(size)));
        let last = sketches.len() - 1;
        sketches.swap(0, last);
        while sketches.len() > 1 {
            let (sa, ma) = sketches.pop().unwrap();
            let (sb, mb) = &mut sketches[0];
            sb.merge(&sa);
            mb.merge(&ma);
            ctx.cover("merges_into_fresh_receiver");
            check_fi(ctx, sb, mb, &items, &format!("after merge into a fresh receiver of size {} [{}]", size, descr.join(" | ")), &mut rng);
        }
    }
    // merge tree: fold in random order, sometimes pairwise first
    while sketches.len() > 1 {
        let a = rng.usize(0, sketches.len() - 1);
        let (sa, ma) = sketches.swap_remove(a);
        let b = rng.usize(0, sketches.len() - 1);
        let (sb, mb) = &mut sketches[b];
        if sa.num_active_items() == 0 && sa.total_weight() > 0 {
            ctx.cover("merged_input_emptied_by_purge");
        }
        sb.merge(&sa);
        mb.merge(&ma);
        ctx.cover("merges");
        check_fi(ctx, sb, mb, &items, &format!("after merge [{}]", descr.join(" | ")), &mut rng);
        // keep updating after the merge
        for _ in 0..rng.usize(0, 50) {
            let i = rng.below(domain);
            sb.update(items[i as usize].clone());
            mb.add(i, 1);
        }
        check_fi(ctx, sb, mb, &items, &format!("after merge + updates [{}]", descr.join(" | ")), &mut rng);
    }
    if ctx.samples.len() < 2 {
        ctx.sample(Json::obj().set("case", case.clone()).set("type", T::NAME).set("sketches", descr.clone()));
    }
    ctx.cover(&format!("type_{}", T::NAME));
    let total: u64 = sketches.iter().map(|s| s.1.total).sum();
    fp.u64(total);
    ctx.end_case(fp.get(), total > 0);
}


/// Explicit histories (witnesses of fixed findings): empty image round trip; a sketch emptied by its last
/// purge, then serialized and merged.
fn scenario_case(ctx: &mut Ctx, case: &Json) {
    let name = case.str("name").unwrap_or("").to_string();
    let mut rng = Rng::new(case.u64("seed").unwrap_or(3));
    let domain = 64u64;
    let items: Vec<u64> = (0..domain).map(|i| <u64 as Item>::make(i, 5)).collect();
    let mut fp = Fp::new();
    fp.u64(rt::mix_str(&name));
    for size in [8usize, 16, 64] {
        let mut a: FrequentItemsSketch<u64> = FrequentItemsSketch::new(size);
        let mut ma = FiModel::new(size);
        if name == "empty_image_round_trip" {
            let bytes = a.serialize();
            match FrequentItemsSketch::<u64>::deserialize(&bytes) {
                Ok(d) => check_fi(ctx, &d, &ma, &items, &format!("scenario {} size {}", name, size), &mut rng),
                Err(e) => ctx.violation("a sketch's own image does not deserialize", format!("scenario {} size {}: {} (image {} bytes)", name, size, e, bytes.len())),
            }
            continue;
        }
        // equal weights until the purge removes every counter
        let w = 1000u64;
        let mut i = 0u64;
        loop {
            a.update_with_count(items[i as usize], w);
            ma.add(i, w);
            i += 1;
            if a.maximum_error() > 0 || i >= domain {
                break;
            }
        }
        check_fi(ctx, &a, &ma, &items, &format!("scenario {} size {} purged-empty (active {})", name, size, a.num_active_items()), &mut rng);
        ctx.check(a.num_active_items() == 0, "scenario precondition: purge did not empty the sketch", || format!("size {}", size));
        let bytes = a.serialize();
        match FrequentItemsSketch::<u64>::deserialize(&bytes) {
            Ok(d) => check_fi(ctx, &d, &ma, &items, &format!("scenario {} size {} purged-empty after round trip", name, size), &mut rng),
            Err(e) => ctx.violation("a sketch's own image does not deserialize", format!("scenario {} size {}: {}", name, size, e)),
        }
        let mut b: FrequentItemsSketch<u64> = FrequentItemsSketch::new(size);
        let mut mb = FiModel::new(size);
        for j in 0..5u64 {
            b.update_with_count(items[(j * 3) as usize], 10 + j);
            mb.add(j * 3, 10 + j);
        }
        b.merge(&a);
        mb.merge(&ma);
        check_fi(ctx, &b, &mb, &items, &format!("scenario {} size {} after merging the purged-empty sketch", name, size), &mut rng);
    }
    ctx.cover(&format!("scenario_{}", name));
    ctx.end_case(fp.get(), true);
}

pub const SCENARIOS: [&str; 2] = ["empty_image_round_trip", "purged_empty_merge_and_serialize"];

pub fn run_case(ctx: &mut Ctx, case: &Json) {
    ctx.begin_case(case.clone());
    let r = rt::guard(|| match case.str("type") {
        _ if case.str("lane") == Some("scenario") => scenario_case(ctx, case),
        Some("i64") => run_typed::<i64>(ctx, case),
        Some("u64") => run_typed::<u64>(ctx, case),
        Some("String") => run_typed::<String>(ctx, case),
        other => ctx.inconclusive(format!("C07: unknown item type {:?}", other)),
    });
    if let Err(p) = r {
        ctx.panic_violation("FrequentItemsSketch", &p);
    }
}

pub fn run(ctx: &mut Ctx) {
    ctx.note(
        "rule",
        Json::Str(
            "one case = 1..5 sketches (map sizes 8..2048, equal or different; item type i64/u64/String) each fed a weighted \
             stream (uniform, Zipf, all-distinct, all-equal weights that make a purge remove every counter, heavy hitters \
             in noise, weights to 2^40), optionally round-tripped, then merged in random order with further updates; all \
             bounds checked for every item of the domain at every purge, every merge and ~12 checkpoints per stream. \
             distinct = fingerprint of (sizes, total weights, offsets); non-trivial = non-zero total weight"
                .into(),
        ),
    );
    if ctx.shard == 0 {
        for name in SCENARIOS {
            run_case(ctx, &Json::obj().set("lane", "scenario").set("name", name).set("seed", ctx.seed));
        }
    }
    let n = ctx.tier_pick(90u64, 700);
    let mut rng = ctx.rng("cases");
    for i in 0..n {
        let ty = *rng.pick(&["i64", "u64", "String"]);
        let n_sk = if rng.chance(0.3) { 1 } else { rng.range(2, 5) };
        let domain = *rng.pick(&[8u64, 40, 300, 1500, 4096]);
        let max_n = ctx.tier_pick(*rng.pick(&[50u64, 400, 3000, 12000]), *rng.pick(&[50u64, 400, 3000, 30000, 300_000]));
        let case = Json::obj()
            .set("type", ty)
            .set("n_sketches", n_sk)
            .set("domain", domain)
            .set("max_n", max_n)
            .set("seed", ctx.case_seed("fi", i));
        run_case(ctx, &case);
    }
}

pub fn replay(ctx: &mut Ctx, case: &Json) {
    run_case(ctx, case);
}
