//! Textbook HLL model: the set of distinct coupons offered, and register[slot] = max value.

use std::collections::BTreeSet;

use crate::refhash;

pub const KEY_MASK_26: u32 = (1 << 26) - 1;

/// coupon = ((min(lz(h2), 62) + 1) << 26) | (h1 & 0x3ffffff), MurmurHash3 seed 9001
pub fn coupon_of_bytes(bytes: &[u8]) -> u32 {
    let (h1, h2) = refhash::murmur3_x64_128(bytes, 9001);
    ((h2.leading_zeros().min(62) + 1) << 26) | (h1 as u32 & KEY_MASK_26)
}

pub fn coupon_slot(c: u32) -> u32 {
    c & KEY_MASK_26
}
pub fn coupon_value(c: u32) -> u8 {
    (c >> 26) as u8
}
pub fn make_coupon(slot: u32, value: u8) -> u32 {
    ((value as u32) << 26) | (slot & KEY_MASK_26)
}

#[derive(Clone, Debug)]
pub struct HllModel {
    pub lg_k: u8,
    pub coupons: BTreeSet<u32>,
    pub regs: Vec<u8>,
}

impl HllModel {
    pub fn new(lg_k: u8) -> HllModel {
        HllModel { lg_k, coupons: BTreeSet::new(), regs: vec![0u8; 1usize << lg_k] }
    }
    /// returns true if the coupon is novel
    pub fn offer(&mut self, c: u32) -> bool {
        let slot = (coupon_slot(c) & ((1u32 << self.lg_k) - 1)) as usize;
        let v = coupon_value(c);
        if v > self.regs[slot] {
            self.regs[slot] = v;
        }
        self.coupons.insert(c)
    }
    pub fn is_empty(&self) -> bool {
        self.coupons.is_empty()
    }
    /// registers folded to a smaller lg_k (max over the slots that share the low bits)
    pub fn folded(&self, lg_k: u8) -> Vec<u8> {
        fold_regs(&self.regs, lg_k)
    }
}

pub fn fold_regs(regs: &[u8], lg_k: u8) -> Vec<u8> {
    let k = 1usize << lg_k;
    assert!(k <= regs.len());
    let mut out = vec![0u8; k];
    for (i, &v) in regs.iter().enumerate() {
        let d = i & (k - 1);
        if v > out[d] {
            out[d] = v;
        }
    }
    out
}

/// registers implied by a coupon set at a given lg_k
pub fn regs_of_coupons<'a>(coupons: impl Iterator<Item = &'a u32>, lg_k: u8) -> Vec<u8> {
    let k = 1usize << lg_k;
    let mut out = vec![0u8; k];
    for &c in coupons {
        let s = (coupon_slot(c) as usize) & (k - 1);
        let v = coupon_value(c);
        if v > out[s] {
            out[s] = v;
        }
    }
    out
}

/// exact sum of 2^-reg split the way the library splits it (values < 32 / >= 32)
pub fn kxq_of(regs: &[u8]) -> (f64, f64) {
    let mut counts = [0u64; 64];
    for &r in regs {
        counts[r.min(63) as usize] += 1;
    }
    let mut k0 = 0.0;
    let mut k1 = 0.0;
    // sum small terms first for accuracy
    for v in (0..32).rev() {
        k0 += counts[v] as f64 * (0.5f64).powi(v as i32);
    }
    for v in (32..64).rev() {
        k1 += counts[v] as f64 * (0.5f64).powi(v as i32);
    }
    (k0, k1)
}
