//! CPC model: the k x 64 bit matrix of distinct (row, col) coupons, plus the exact KxP / HIP
//! recurrences in arrival order.

use crate::refhash;
use crate::rt::Rng;

pub fn row_col_of_bytes(bytes: &[u8], seed: u64, lg_k: u8) -> u32 {
    let (h1, h2) = refhash::murmur3_x64_128(bytes, seed);
    let k = 1u64 << lg_k;
    let col = h2.leading_zeros().min(63);
    let row = (h1 & (k - 1)) as u32;
    let mut rc = (row << 6) | col;
    if rc == u32::MAX {
        rc ^= 1 << 6;
    }
    rc
}

#[derive(Clone)]
pub struct CpcModel {
    pub lg_k: u8,
    pub matrix: Vec<u64>,
    pub num_coupons: u64,
    /// KxP as the library is specified to maintain it: decremented per novel coupon, recomputed
    /// exactly from the matrix on every 8th window shift
    pub kxp: f64,
    pub hip: f64,
    pub offset: u8,
    pub refreshes: u32,
    /// largest magnitude KxP had since the last exact refresh: rounding (and absorption of small
    /// terms) happens at that scale, so it is the yardstick for comparing two float evaluations
    pub kxp_scale: f64,
    /// bound on the error of `hip` that legitimately follows from KxP's rounding
    pub hip_slack: f64,
}

/// relative rounding allowance per unit of `kxp_scale` (a few ulps; the library sums its refresh in
/// a different order than the model)
pub const KXP_ULP_ALLOWANCE: f64 = 2e-14;

pub fn correct_offset(lg_k: u8, c: u64) -> u8 {
    let k = 1i64 << lg_k;
    let tmp = ((c as i64) << 3) - 19 * k;
    if tmp < 0 {
        0
    } else {
        (tmp >> (lg_k + 3)) as u8
    }
}

/// 0 empty, 1 sparse, 2 hybrid, 3 pinned, 4 sliding
pub fn flavor(lg_k: u8, c: u64) -> u8 {
    let k = 1u64 << lg_k;
    if c == 0 {
        0
    } else if 32 * c < 3 * k {
        1
    } else if 2 * c < k {
        2
    } else if 8 * c < 27 * k {
        3
    } else {
        4
    }
}

/// exact sum over unset bits of 2^-(col+1), in units of 2^-64, converted to f64
pub fn exact_kxp(matrix: &[u64]) -> f64 {
    let mut units: u128 = 0;
    for &w in matrix {
        // unset bit at col c contributes 2^(63-c) units: that is the bit-reversed complement
        units += (!w).reverse_bits() as u128;
    }
    // split to keep the conversion exact enough (relative 2^-53)
    (units as f64) * (0.5f64).powi(64)
}

impl CpcModel {
    pub fn new(lg_k: u8) -> CpcModel {
        CpcModel {
            lg_k,
            matrix: vec![0u64; 1usize << lg_k],
            num_coupons: 0,
            kxp: (1u64 << lg_k) as f64,
            hip: 0.0,
            offset: 0,
            refreshes: 0,
            kxp_scale: (1u64 << lg_k) as f64,
            hip_slack: 0.0,
        }
    }
    pub fn is_set(&self, rc: u32) -> bool {
        self.matrix[(rc >> 6) as usize] >> (rc & 63) & 1 == 1
    }
    /// returns true if novel
    pub fn offer(&mut self, rc: u32) -> bool {
        let row = (rc >> 6) as usize;
        let col = rc & 63;
        if self.matrix[row] >> col & 1 == 1 {
            return false;
        }
        self.matrix[row] |= 1u64 << col;
        self.num_coupons += 1;
        let k = (1u64 << self.lg_k) as f64;
        self.hip += k / self.kxp;
        self.hip_slack += (k / self.kxp) * (KXP_ULP_ALLOWANCE * self.kxp_scale / self.kxp);
        self.kxp -= (0.5f64).powi(col as i32 + 1);
        let new_off = correct_offset(self.lg_k, self.num_coupons);
        if new_off != self.offset {
            if new_off & 7 == 0 {
                self.kxp = exact_kxp(&self.matrix);
                self.kxp_scale = self.kxp;
                self.refreshes += 1;
            }
            self.offset = new_off;
        }
        true
    }
    pub fn popcount(&self) -> u64 {
        self.matrix.iter().map(|w| w.count_ones() as u64).sum()
    }
}

pub fn fold_matrix(m: &[u64], lg_k: u8) -> Vec<u64> {
    let k = 1usize << lg_k;
    assert!(k <= m.len());
    let mut out = vec![0u64; k];
    for (r, &w) in m.iter().enumerate() {
        out[r & (k - 1)] |= w;
    }
    out
}

/// The last coupon count at which the window offset is still <= 56.
pub fn max_coupons_in_envelope(lg_k: u8) -> u64 {
    let k = 1u64 << lg_k;
    ((27 + 8 * 56) * k) / 8 - 1
}

/// Natural arrival order of novel coupons: bit (r,c) arrives at an exponential time with rate
/// 2^-(c+1)/K, which is exactly the law of the novel-coupon sequence of a hashed stream. Returns the
/// coupons (row<<6|col) that arrive before `c_max` coupons have been collected, in order.
pub fn natural_order(rng: &mut Rng, lg_k: u8, c_max: u64) -> Vec<u32> {
    let k = 1usize << lg_k;
    let full = c_max >= (k as u64) * 40;
    // the complete event list is only worth building when a large part of it is needed
    if full || (lg_k <= 12 && c_max * 3 >= (k as u64) * 64) || lg_k <= 5 {
        let mut ev: Vec<(f64, u32)> = Vec::with_capacity(k * 64);
        for r in 0..k {
            for c in 0..64u32 {
                let e = -(1.0 - rng.f64()).ln();
                // time = e / rate, rate = 2^-(c+1) (the common factor 1/K is irrelevant for ordering)
                let t = e * (2.0f64).powi(c as i32 + 1);
                ev.push((t, ((r as u32) << 6) | c));
            }
        }
        ev.sort_unstable_by(|a, b| a.0.partial_cmp(&b.0).unwrap());
        ev.truncate(c_max.min((k * 64) as u64) as usize);
        return ev.into_iter().map(|e| e.1).collect();
    }
    // large k: only the prefix is needed. Choose a horizon T (in units where rate_c = 2^-(c+1))
    // such that the expected number of coupons by T comfortably exceeds c_max, then sample only the
    // bits that arrive before T.
    let target = c_max as f64 * 1.15 + 1000.0;
    let mut t_hi = 1.0f64;
    let expected = |t: f64| -> f64 { (0..64).map(|c| (k as f64) * (1.0 - (-t * (0.5f64).powi(c + 1)).exp())).sum::<f64>() };
    while expected(t_hi) < target {
        t_hi *= 2.0;
    }
    while expected(t_hi / 2.0) >= target {
        t_hi /= 2.0;
    }
    let mut ev: Vec<(f64, u32)> = Vec::with_capacity(target as usize + 1024);
    for c in 0..64u32 {
        let rate = (0.5f64).powi(c as i32 + 1);
        let p = 1.0 - (-t_hi * rate).exp();
        if p * (k as f64) < 1e-9 {
            continue;
        }
        let mut push = |r: usize, rng: &mut Rng| {
            // arrival time conditional on being < t_hi
            let u = rng.f64() * p;
            let t = -(1.0 - u).ln() / rate;
            ev.push((t, ((r as u32) << 6) | c));
        };
        if p > 0.25 {
            for r in 0..k {
                if rng.f64() < p {
                    push(r, rng);
                }
            }
        } else {
            // geometric skipping
            let lq = (1.0 - p).ln();
            let mut r = 0usize;
            loop {
                let skip = ((1.0 - rng.f64()).ln() / lq).floor();
                if skip >= (k - r) as f64 {
                    break;
                }
                r += skip as usize;
                if r >= k {
                    break;
                }
                push(r, rng);
                r += 1;
                if r >= k {
                    break;
                }
            }
        }
    }
    ev.sort_unstable_by(|a, b| a.0.partial_cmp(&b.0).unwrap());
    ev.truncate(c_max as usize);
    ev.into_iter().map(|e| e.1).collect()
}


/// Expected number of distinct coupons after n distinct items: each of the K x 64 cells (row, col) is hit by an
/// item with probability 2^-(col+1)/K (the last column takes the remaining tail).
pub fn expected_coupons(lg_k: u8, n: f64) -> f64 {
    let k = (1u64 << lg_k) as f64;
    let mut sum = 0.0;
    for col in 0..64 {
        let p = if col < 63 { (0.5f64).powi(col + 1) / k } else { (0.5f64).powi(63) / k };
        // 1 - (1-p)^n, stable for tiny p
        sum += k * -(n * (-p).ln_1p()).exp_m1();
    }
    sum
}

/// The ICON estimator by its definition: the n at which the expected coupon count equals C (bisection on the exact
/// expectation; independent of the library's polynomial / exponential approximations).
pub fn icon_reference(lg_k: u8, c: u64) -> f64 {
    if c == 0 {
        return 0.0;
    }
    let target = c as f64;
    let (mut lo, mut hi) = (0.0f64, 1.0f64);
    while expected_coupons(lg_k, hi) < target {
        hi *= 2.0;
        if hi > 1e30 {
            return f64::INFINITY;
        }
    }
    for _ in 0..200 {
        let mid = 0.5 * (lo + hi);
        if expected_coupons(lg_k, mid) < target {
            lo = mid;
        } else {
            hi = mid;
        }
        if (hi - lo) <= 1e-10 * hi {
            break;
        }
    }
    0.5 * (lo + hi)
}
