// exact models
