//! Exact reference models (each a few dozen lines; the trusted base together with refhash/spec).
pub mod hll;
pub mod cpc;
