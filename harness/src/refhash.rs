//! Independent one-shot reference implementations of MurmurHash3_x64_128 and XXH64, written from
//! the published reference algorithms (Appleby's MurmurHash3.cpp, Collet's xxhash spec). They share
//! no code with the crate under test.

fn rd64(b: &[u8], off: usize) -> u64 {
    let mut v = 0u64;
    for i in 0..8 {
        v |= (b[off + i] as u64) << (8 * i);
    }
    v
}

fn rd32(b: &[u8], off: usize) -> u32 {
    (b[off] as u32) | ((b[off + 1] as u32) << 8) | ((b[off + 2] as u32) << 16) | ((b[off + 3] as u32) << 24)
}

fn fmix64(mut k: u64) -> u64 {
    k ^= k >> 33;
    k = k.wrapping_mul(0xff51afd7ed558ccd);
    k ^= k >> 33;
    k = k.wrapping_mul(0xc4ceb9fe1a85ec53);
    k ^= k >> 33;
    k
}

/// MurmurHash3_x64_128 with a 64-bit seed placed in both h1 and h2 (the DataSketches convention;
/// for seeds < 2^32 this is the reference algorithm).
pub fn murmur3_x64_128(data: &[u8], seed: u64) -> (u64, u64) {
    const C1: u64 = 0x87c37b91114253d5;
    const C2: u64 = 0x4cf5ad432745937f;
    let len = data.len();
    let nblocks = len / 16;
    let mut h1 = seed;
    let mut h2 = seed;
    for i in 0..nblocks {
        let mut k1 = rd64(data, i * 16);
        let mut k2 = rd64(data, i * 16 + 8);
        k1 = k1.wrapping_mul(C1);
        k1 = k1.rotate_left(31);
        k1 = k1.wrapping_mul(C2);
        h1 ^= k1;
        h1 = h1.rotate_left(27);
        h1 = h1.wrapping_add(h2);
        h1 = h1.wrapping_mul(5).wrapping_add(0x52dce729);
        k2 = k2.wrapping_mul(C2);
        k2 = k2.rotate_left(33);
        k2 = k2.wrapping_mul(C1);
        h2 ^= k2;
        h2 = h2.rotate_left(31);
        h2 = h2.wrapping_add(h1);
        h2 = h2.wrapping_mul(5).wrapping_add(0x38495ab5);
    }
    let tail = &data[nblocks * 16..];
    let mut k1 = 0u64;
    let mut k2 = 0u64;
    let t = tail.len();
    // the reference switch falls through from 15 down to 1
    if t >= 15 {
        k2 ^= (tail[14] as u64) << 48;
    }
    if t >= 14 {
        k2 ^= (tail[13] as u64) << 40;
    }
    if t >= 13 {
        k2 ^= (tail[12] as u64) << 32;
    }
    if t >= 12 {
        k2 ^= (tail[11] as u64) << 24;
    }
    if t >= 11 {
        k2 ^= (tail[10] as u64) << 16;
    }
    if t >= 10 {
        k2 ^= (tail[9] as u64) << 8;
    }
    if t >= 9 {
        k2 ^= tail[8] as u64;
        k2 = k2.wrapping_mul(C2);
        k2 = k2.rotate_left(33);
        k2 = k2.wrapping_mul(C1);
        h2 ^= k2;
    }
    if t >= 8 {
        k1 ^= (tail[7] as u64) << 56;
    }
    if t >= 7 {
        k1 ^= (tail[6] as u64) << 48;
    }
    if t >= 6 {
        k1 ^= (tail[5] as u64) << 40;
    }
    if t >= 5 {
        k1 ^= (tail[4] as u64) << 32;
    }
    if t >= 4 {
        k1 ^= (tail[3] as u64) << 24;
    }
    if t >= 3 {
        k1 ^= (tail[2] as u64) << 16;
    }
    if t >= 2 {
        k1 ^= (tail[1] as u64) << 8;
    }
    if t >= 1 {
        k1 ^= tail[0] as u64;
        k1 = k1.wrapping_mul(C1);
        k1 = k1.rotate_left(31);
        k1 = k1.wrapping_mul(C2);
        h1 ^= k1;
    }
    h1 ^= len as u64;
    h2 ^= len as u64;
    h1 = h1.wrapping_add(h2);
    h2 = h2.wrapping_add(h1);
    h1 = fmix64(h1);
    h2 = fmix64(h2);
    h1 = h1.wrapping_add(h2);
    h2 = h2.wrapping_add(h1);
    (h1, h2)
}

const P1: u64 = 11400714785074694791;
const P2: u64 = 14029467366897019727;
const P3: u64 = 1609587929392839161;
const P4: u64 = 9650029242287828579;
const P5: u64 = 2870177450012600261;

fn xx_round(acc: u64, input: u64) -> u64 {
    acc.wrapping_add(input.wrapping_mul(P2)).rotate_left(31).wrapping_mul(P1)
}

fn xx_merge(acc: u64, val: u64) -> u64 {
    (acc ^ xx_round(0, val)).wrapping_mul(P1).wrapping_add(P4)
}

/// XXH64 as specified in xxhash's doc/xxhash_spec.md
pub fn xxh64(data: &[u8], seed: u64) -> u64 {
    let len = data.len();
    let mut p = 0usize;
    let mut h: u64;
    if len >= 32 {
        let mut v1 = seed.wrapping_add(P1).wrapping_add(P2);
        let mut v2 = seed.wrapping_add(P2);
        let mut v3 = seed;
        let mut v4 = seed.wrapping_sub(P1);
        while p + 32 <= len {
            v1 = xx_round(v1, rd64(data, p));
            v2 = xx_round(v2, rd64(data, p + 8));
            v3 = xx_round(v3, rd64(data, p + 16));
            v4 = xx_round(v4, rd64(data, p + 24));
            p += 32;
        }
        h = v1
            .rotate_left(1)
            .wrapping_add(v2.rotate_left(7))
            .wrapping_add(v3.rotate_left(12))
            .wrapping_add(v4.rotate_left(18));
        h = xx_merge(h, v1);
        h = xx_merge(h, v2);
        h = xx_merge(h, v3);
        h = xx_merge(h, v4);
    } else {
        h = seed.wrapping_add(P5);
    }
    h = h.wrapping_add(len as u64);
    while p + 8 <= len {
        let k1 = xx_round(0, rd64(data, p));
        h ^= k1;
        h = h.rotate_left(27).wrapping_mul(P1).wrapping_add(P4);
        p += 8;
    }
    if p + 4 <= len {
        h ^= (rd32(data, p) as u64).wrapping_mul(P1);
        h = h.rotate_left(23).wrapping_mul(P2).wrapping_add(P3);
        p += 4;
    }
    while p < len {
        h ^= (data[p] as u64).wrapping_mul(P5);
        h = h.rotate_left(11).wrapping_mul(P1);
        p += 1;
    }
    h ^= h >> 33;
    h = h.wrapping_mul(P2);
    h ^= h >> 29;
    h = h.wrapping_mul(P3);
    h ^= h >> 32;
    h
}

/// Self test against published vectors that do not originate from the repository under test.
/// Returns Err(description) on the first mismatch.
pub fn self_test() -> Result<u32, String> {
    let mut n = 0u32;
    let chk_m = |data: &[u8], seed: u64, h1: u64, h2: u64| -> Result<(), String> {
        let got = murmur3_x64_128(data, seed);
        if got != (h1, h2) {
            return Err(format!(
                "refhash murmur3 self-test failed for {:?}/{}: got {:016x} {:016x}",
                data, seed, got.0, got.1
            ));
        }
        Ok(())
    };
    // MurmurHash3_x64_128("") seed 0 = 0
    chk_m(b"", 0, 0, 0)?;
    n += 1;
    // "hello" seed 0: cbd8a7b341bd9b025b1e906a48ae1d19 (h1 = cbd8a7b341bd9b02, h2 = 5b1e906a48ae1d19)
    chk_m(b"hello", 0, 0xcbd8a7b341bd9b02, 0x5b1e906a48ae1d19)?;
    n += 1;
    // "The quick brown fox jumps over the lazy dog" seed 0 (widely published):
    // e34bbc7bbc071b6c7a433ca9c49a9347
    chk_m(
        b"The quick brown fox jumps over the lazy dog",
        0,
        0xe34bbc7bbc071b6c,
        0x7a433ca9c49a9347,
    )?;
    n += 1;
    let chk_x = |data: &[u8], seed: u64, h: u64| -> Result<(), String> {
        let got = xxh64(data, seed);
        if got != h {
            return Err(format!("refhash xxh64 self-test failed for {:?}/{}: got {:016x}", data, seed, got));
        }
        Ok(())
    };
    chk_x(b"", 0, 0xef46db3751d8e999)?;
    n += 1;
    chk_x(b"a", 0, 0xd24ec4f1a98c6e5b)?;
    n += 1;
    chk_x(b"abc", 0, 0x44bc2cf5ad770999)?;
    n += 1;
    // "Nobody inspects the spammish repetition" seed 0 (python-xxhash docs): fbcea83c8a378bf1
    chk_x(b"Nobody inspects the spammish repetition", 0, 0xfbcea83c8a378bf1)?;
    n += 1;
    Ok(n)
}

/// DataSketches 16-bit seed hash: murmur3(seed as 8 LE bytes, seed 0).h1 & 0xffff
pub fn seed_hash(seed: u64) -> u16 {
    (murmur3_x64_128(&seed.to_le_bytes(), 0).0 & 0xffff) as u16
}
