//! Minimal JSON value, writer and parser (no external crates available).

use std::collections::BTreeMap;
use std::fmt::Write;

#[derive(Debug, Clone, PartialEq)]
pub enum Json {
    Null,
    Bool(bool),
    Int(i128),
    Num(f64),
    Str(String),
    Arr(Vec<Json>),
    Obj(BTreeMap<String, Json>),
}

impl Json {
    pub fn obj() -> Json {
        Json::Obj(BTreeMap::new())
    }
    pub fn set(mut self, k: &str, v: impl Into<Json>) -> Json {
        if let Json::Obj(m) = &mut self {
            m.insert(k.to_string(), v.into());
        }
        self
    }
    pub fn put(&mut self, k: &str, v: impl Into<Json>) {
        if let Json::Obj(m) = self {
            m.insert(k.to_string(), v.into());
        }
    }
    pub fn get(&self, k: &str) -> Option<&Json> {
        match self {
            Json::Obj(m) => m.get(k),
            _ => None,
        }
    }
    pub fn str(&self, k: &str) -> Option<&str> {
        match self.get(k) {
            Some(Json::Str(s)) => Some(s),
            _ => None,
        }
    }
    pub fn u64(&self, k: &str) -> Option<u64> {
        match self.get(k) {
            Some(Json::Int(i)) => Some(*i as u64),
            Some(Json::Num(f)) => Some(*f as u64),
            Some(Json::Str(s)) => s.parse().ok(),
            _ => None,
        }
    }
    pub fn i64(&self, k: &str) -> Option<i64> {
        match self.get(k) {
            Some(Json::Int(i)) => Some(*i as i64),
            Some(Json::Num(f)) => Some(*f as i64),
            _ => None,
        }
    }
    pub fn f64(&self, k: &str) -> Option<f64> {
        match self.get(k) {
            Some(Json::Int(i)) => Some(*i as f64),
            Some(Json::Num(f)) => Some(*f),
            _ => None,
        }
    }
    pub fn bool(&self, k: &str) -> Option<bool> {
        match self.get(k) {
            Some(Json::Bool(b)) => Some(*b),
            _ => None,
        }
    }
    pub fn arr(&self, k: &str) -> Option<&Vec<Json>> {
        match self.get(k) {
            Some(Json::Arr(a)) => Some(a),
            _ => None,
        }
    }
    pub fn as_u64(&self) -> Option<u64> {
        match self {
            Json::Int(i) => Some(*i as u64),
            Json::Num(f) => Some(*f as u64),
            Json::Str(s) => s.parse().ok(),
            _ => None,
        }
    }
    pub fn as_f64(&self) -> Option<f64> {
        match self {
            Json::Int(i) => Some(*i as f64),
            Json::Num(f) => Some(*f),
            _ => None,
        }
    }
    pub fn as_str(&self) -> Option<&str> {
        match self {
            Json::Str(s) => Some(s),
            _ => None,
        }
    }

    pub fn write(&self, out: &mut String) {
        match self {
            Json::Null => out.push_str("null"),
            Json::Bool(b) => out.push_str(if *b { "true" } else { "false" }),
            Json::Int(i) => {
                let _ = write!(out, "{}", i);
            }
            Json::Num(f) => {
                if f.is_finite() {
                    let _ = write!(out, "{:e}", f);
                } else {
                    // JSON has no inf/nan; keep them readable as strings
                    let _ = write!(out, "\"{}\"", f);
                }
            }
            Json::Str(s) => write_str(s, out),
            Json::Arr(a) => {
                out.push('[');
                for (i, v) in a.iter().enumerate() {
                    if i > 0 {
                        out.push(',');
                    }
                    v.write(out);
                }
                out.push(']');
            }
            Json::Obj(m) => {
                out.push('{');
                for (i, (k, v)) in m.iter().enumerate() {
                    if i > 0 {
                        out.push(',');
                    }
                    write_str(k, out);
                    out.push(':');
                    v.write(out);
                }
                out.push('}');
            }
        }
    }

    pub fn dump(&self) -> String {
        let mut s = String::new();
        self.write(&mut s);
        s
    }

    pub fn parse(s: &str) -> Result<Json, String> {
        let b = s.as_bytes();
        let mut p = 0usize;
        let v = parse_value(b, &mut p)?;
        skip_ws(b, &mut p);
        if p != b.len() {
            return Err(format!("trailing data at {}", p));
        }
        Ok(v)
    }
}

fn write_str(s: &str, out: &mut String) {
    out.push('"');
    for c in s.chars() {
        match c {
            '"' => out.push_str("\\\""),
            '\\' => out.push_str("\\\\"),
            '\n' => out.push_str("\\n"),
            '\r' => out.push_str("\\r"),
            '\t' => out.push_str("\\t"),
            c if (c as u32) < 0x20 => {
                let _ = write!(out, "\\u{:04x}", c as u32);
            }
            c => out.push(c),
        }
    }
    out.push('"');
}

fn skip_ws(b: &[u8], p: &mut usize) {
    while *p < b.len() && (b[*p] == b' ' || b[*p] == b'\n' || b[*p] == b'\r' || b[*p] == b'\t') {
        *p += 1;
    }
}

fn parse_value(b: &[u8], p: &mut usize) -> Result<Json, String> {
    skip_ws(b, p);
    if *p >= b.len() {
        return Err("unexpected end".into());
    }
    match b[*p] {
        b'{' => {
            *p += 1;
            let mut m = BTreeMap::new();
            skip_ws(b, p);
            if *p < b.len() && b[*p] == b'}' {
                *p += 1;
                return Ok(Json::Obj(m));
            }
            loop {
                skip_ws(b, p);
                let k = match parse_value(b, p)? {
                    Json::Str(s) => s,
                    _ => return Err("object key must be string".into()),
                };
                skip_ws(b, p);
                if *p >= b.len() || b[*p] != b':' {
                    return Err(format!("expected ':' at {}", p));
                }
                *p += 1;
                let v = parse_value(b, p)?;
                m.insert(k, v);
                skip_ws(b, p);
                if *p < b.len() && b[*p] == b',' {
                    *p += 1;
                    continue;
                }
                if *p < b.len() && b[*p] == b'}' {
                    *p += 1;
                    return Ok(Json::Obj(m));
                }
                return Err(format!("expected ',' or '}}' at {}", p));
            }
        }
        b'[' => {
            *p += 1;
            let mut a = vec![];
            skip_ws(b, p);
            if *p < b.len() && b[*p] == b']' {
                *p += 1;
                return Ok(Json::Arr(a));
            }
            loop {
                a.push(parse_value(b, p)?);
                skip_ws(b, p);
                if *p < b.len() && b[*p] == b',' {
                    *p += 1;
                    continue;
                }
                if *p < b.len() && b[*p] == b']' {
                    *p += 1;
                    return Ok(Json::Arr(a));
                }
                return Err(format!("expected ',' or ']' at {}", p));
            }
        }
        b'"' => {
            *p += 1;
            let mut s = Vec::new();
            while *p < b.len() && b[*p] != b'"' {
                if b[*p] == b'\\' {
                    *p += 1;
                    if *p >= b.len() {
                        return Err("bad escape".into());
                    }
                    match b[*p] {
                        b'n' => s.push(b'\n'),
                        b'r' => s.push(b'\r'),
                        b't' => s.push(b'\t'),
                        b'b' => s.push(8),
                        b'f' => s.push(12),
                        b'u' => {
                            if *p + 4 >= b.len() {
                                return Err("bad \\u".into());
                            }
                            let h = std::str::from_utf8(&b[*p + 1..*p + 5]).map_err(|e| e.to_string())?;
                            let cp = u32::from_str_radix(h, 16).map_err(|e| e.to_string())?;
                            let ch = char::from_u32(cp).unwrap_or('?');
                            let mut buf = [0u8; 4];
                            s.extend_from_slice(ch.encode_utf8(&mut buf).as_bytes());
                            *p += 4;
                        }
                        c => s.push(c),
                    }
                    *p += 1;
                } else {
                    s.push(b[*p]);
                    *p += 1;
                }
            }
            if *p >= b.len() {
                return Err("unterminated string".into());
            }
            *p += 1;
            Ok(Json::Str(String::from_utf8_lossy(&s).into_owned()))
        }
        b't' if b[*p..].starts_with(b"true") => {
            *p += 4;
            Ok(Json::Bool(true))
        }
        b'f' if b[*p..].starts_with(b"false") => {
            *p += 5;
            Ok(Json::Bool(false))
        }
        b'n' if b[*p..].starts_with(b"null") => {
            *p += 4;
            Ok(Json::Null)
        }
        _ => {
            let start = *p;
            let mut is_float = false;
            while *p < b.len() {
                match b[*p] {
                    b'0'..=b'9' | b'-' | b'+' => {}
                    b'.' | b'e' | b'E' => is_float = true,
                    _ => break,
                }
                *p += 1;
            }
            let t = std::str::from_utf8(&b[start..*p]).map_err(|e| e.to_string())?;
            if t.is_empty() {
                return Err(format!("unexpected byte {} at {}", b[start], start));
            }
            if is_float {
                t.parse::<f64>().map(Json::Num).map_err(|e| format!("{}: {}", t, e))
            } else {
                t.parse::<i128>().map(Json::Int).map_err(|e| format!("{}: {}", t, e))
            }
        }
    }
}

impl From<bool> for Json {
    fn from(v: bool) -> Json {
        Json::Bool(v)
    }
}
impl From<&str> for Json {
    fn from(v: &str) -> Json {
        Json::Str(v.to_string())
    }
}
impl From<String> for Json {
    fn from(v: String) -> Json {
        Json::Str(v)
    }
}
impl From<f64> for Json {
    fn from(v: f64) -> Json {
        Json::Num(v)
    }
}
impl From<f32> for Json {
    fn from(v: f32) -> Json {
        Json::Num(v as f64)
    }
}
macro_rules! from_int {
    ($($t:ty),*) => {$(impl From<$t> for Json { fn from(v: $t) -> Json { Json::Int(v as i128) } })*};
}
from_int!(u8, u16, u32, u64, usize, i8, i16, i32, i64, isize);
impl<T: Into<Json>> From<Vec<T>> for Json {
    fn from(v: Vec<T>) -> Json {
        Json::Arr(v.into_iter().map(|x| x.into()).collect())
    }
}

pub fn hex(bytes: &[u8]) -> String {
    let mut s = String::with_capacity(bytes.len() * 2);
    for b in bytes {
        let _ = write!(s, "{:02x}", b);
    }
    s
}

pub fn unhex(s: &str) -> Option<Vec<u8>> {
    let b = s.as_bytes();
    if b.len() % 2 != 0 {
        return None;
    }
    let mut out = Vec::with_capacity(b.len() / 2);
    for i in (0..b.len()).step_by(2) {
        let h = (b[i] as char).to_digit(16)?;
        let l = (b[i + 1] as char).to_digit(16)?;
        out.push((h * 16 + l) as u8);
    }
    Some(out)
}
