//! Runtime core: PRNG, recording hasher, panic capture, allocation monitor, event log.

pub mod json;

use std::alloc::{GlobalAlloc, Layout, System};
use std::cell::{Cell, RefCell};
use std::collections::{BTreeMap, HashMap, HashSet};
use std::panic::{catch_unwind, AssertUnwindSafe};

pub use json::Json;

// ------------------------------------------------------------------------------------------------
// PRNG (xoshiro256** seeded through splitmix64)

#[derive(Clone, Debug)]
pub struct Rng {
    s: [u64; 4],
}

pub fn splitmix64(x: &mut u64) -> u64 {
    *x = x.wrapping_add(0x9E3779B97F4A7C15);
    let mut z = *x;
    z = (z ^ (z >> 30)).wrapping_mul(0xBF58476D1CE4E5B9);
    z = (z ^ (z >> 27)).wrapping_mul(0x94D049BB133111EB);
    z ^ (z >> 31)
}

/// Stateless mixing of several words into one seed.
pub fn mix(words: &[u64]) -> u64 {
    let mut h = 0x243F6A8885A308D3u64;
    for &w in words {
        let mut x = h ^ w;
        h = splitmix64(&mut x);
    }
    h
}

pub fn mix_str(s: &str) -> u64 {
    let mut h = 0xcbf29ce484222325u64;
    for b in s.bytes() {
        h ^= b as u64;
        h = h.wrapping_mul(0x100000001b3);
    }
    h
}

impl Rng {
    pub fn new(seed: u64) -> Rng {
        let mut x = seed;
        let s = [splitmix64(&mut x), splitmix64(&mut x), splitmix64(&mut x), splitmix64(&mut x)];
        Rng { s }
    }
    #[inline]
    pub fn next_u64(&mut self) -> u64 {
        let result = self.s[1].wrapping_mul(5).rotate_left(7).wrapping_mul(9);
        let t = self.s[1] << 17;
        self.s[2] ^= self.s[0];
        self.s[3] ^= self.s[1];
        self.s[1] ^= self.s[2];
        self.s[0] ^= self.s[3];
        self.s[2] ^= t;
        self.s[3] = self.s[3].rotate_left(45);
        result
    }
    #[inline]
    pub fn next_u32(&mut self) -> u32 {
        (self.next_u64() >> 32) as u32
    }
    /// uniform in 0..n (n > 0)
    #[inline]
    pub fn below(&mut self, n: u64) -> u64 {
        debug_assert!(n > 0);
        ((self.next_u64() as u128 * n as u128) >> 64) as u64
    }
    /// uniform in lo..=hi
    #[inline]
    pub fn range(&mut self, lo: u64, hi: u64) -> u64 {
        lo + self.below(hi - lo + 1)
    }
    #[inline]
    pub fn usize(&mut self, lo: usize, hi: usize) -> usize {
        self.range(lo as u64, hi as u64) as usize
    }
    /// uniform in [0,1)
    #[inline]
    pub fn f64(&mut self) -> f64 {
        (self.next_u64() >> 11) as f64 * (1.0 / (1u64 << 53) as f64)
    }
    #[inline]
    pub fn chance(&mut self, p: f64) -> bool {
        self.f64() < p
    }
    pub fn pick<'a, T>(&mut self, xs: &'a [T]) -> &'a T {
        &xs[self.below(xs.len() as u64) as usize]
    }
    pub fn shuffle<T>(&mut self, xs: &mut [T]) {
        for i in (1..xs.len()).rev() {
            let j = self.below(i as u64 + 1) as usize;
            xs.swap(i, j);
        }
    }
    /// standard normal (Box-Muller)
    pub fn normal(&mut self) -> f64 {
        let u1 = 1.0 - self.f64();
        let u2 = self.f64();
        (-2.0 * u1.ln()).sqrt() * (2.0 * std::f64::consts::PI * u2).cos()
    }
    /// geometric-ish: number of leading zeros of a random word, capped
    pub fn geometric(&mut self, cap: u32) -> u32 {
        self.next_u64().leading_zeros().min(cap)
    }
    pub fn bytes(&mut self, n: usize) -> Vec<u8> {
        let mut v = Vec::with_capacity(n);
        while v.len() < n {
            let w = self.next_u64().to_le_bytes();
            let take = (n - v.len()).min(8);
            v.extend_from_slice(&w[..take]);
        }
        v
    }
}

// ------------------------------------------------------------------------------------------------
// Recording hasher: learn which bytes an item contributes without assuming how Hash encodes it.

#[derive(Default, Clone, Debug)]
pub struct RecordingHasher {
    pub chunks: Vec<Vec<u8>>,
}

impl std::hash::Hasher for RecordingHasher {
    fn finish(&self) -> u64 {
        0
    }
    fn write(&mut self, bytes: &[u8]) {
        self.chunks.push(bytes.to_vec());
    }
}

pub fn hashed_chunks<T: std::hash::Hash>(v: &T) -> Vec<Vec<u8>> {
    let mut h = RecordingHasher::default();
    v.hash(&mut h);
    h.chunks
}

pub fn hashed_bytes<T: std::hash::Hash>(v: &T) -> Vec<u8> {
    let mut out = vec![];
    for c in hashed_chunks(v) {
        out.extend_from_slice(&c);
    }
    out
}

// ------------------------------------------------------------------------------------------------
// Allocation monitor

pub struct MonAlloc;

thread_local! {
    static ARMED: Cell<bool> = const { Cell::new(false) };
    static CAP: Cell<usize> = const { Cell::new(usize::MAX) };
    static MAX_REQ: Cell<usize> = const { Cell::new(0) };
    static N_ALLOC: Cell<u64> = const { Cell::new(0) };
    static LIVE: Cell<i64> = const { Cell::new(0) };
    static PEAK: Cell<i64> = const { Cell::new(0) };
    static REFUSED: Cell<usize> = const { Cell::new(0) };
}

#[inline]
fn note_alloc(size: usize) -> bool {
    // returns false if the request must be refused
    let armed = ARMED.try_with(|a| a.get()).unwrap_or(false);
    if !armed {
        return true;
    }
    MAX_REQ.with(|m| {
        if size > m.get() {
            m.set(size)
        }
    });
    N_ALLOC.with(|n| n.set(n.get() + 1));
    if size > CAP.with(|c| c.get()) {
        REFUSED.with(|r| r.set(size));
        return false;
    }
    LIVE.with(|l| {
        let v = l.get() + size as i64;
        l.set(v);
        PEAK.with(|p| {
            if v > p.get() {
                p.set(v)
            }
        });
    });
    true
}

#[inline]
fn note_free(size: usize) {
    let armed = ARMED.try_with(|a| a.get()).unwrap_or(false);
    if armed {
        LIVE.with(|l| l.set(l.get() - size as i64));
    }
}

unsafe impl GlobalAlloc for MonAlloc {
    unsafe fn alloc(&self, layout: Layout) -> *mut u8 {
        if !note_alloc(layout.size()) {
            return std::ptr::null_mut();
        }
        System.alloc(layout)
    }
    unsafe fn alloc_zeroed(&self, layout: Layout) -> *mut u8 {
        if !note_alloc(layout.size()) {
            return std::ptr::null_mut();
        }
        System.alloc_zeroed(layout)
    }
    unsafe fn dealloc(&self, ptr: *mut u8, layout: Layout) {
        note_free(layout.size());
        System.dealloc(ptr, layout)
    }
    unsafe fn realloc(&self, ptr: *mut u8, layout: Layout, new_size: usize) -> *mut u8 {
        if !note_alloc(new_size) {
            return std::ptr::null_mut();
        }
        note_free(layout.size());
        System.realloc(ptr, layout, new_size)
    }
}

#[derive(Debug, Clone, Copy, Default)]
pub struct AllocStats {
    pub max_request: usize,
    pub allocations: u64,
    pub peak_live: i64,
    pub retained: i64,
    pub refused: usize,
}

/// Run `f` with the allocation monitor armed on this thread. A single request above `cap` is
/// refused (-> alloc error hook -> panic), everything else is served and recorded.
pub fn with_alloc_monitor<R>(cap: usize, f: impl FnOnce() -> R) -> (R, AllocStats) {
    MAX_REQ.with(|m| m.set(0));
    N_ALLOC.with(|m| m.set(0));
    LIVE.with(|m| m.set(0));
    PEAK.with(|m| m.set(0));
    REFUSED.with(|m| m.set(0));
    CAP.with(|c| c.set(cap));
    ARMED.with(|a| a.set(true));
    struct Disarm;
    impl Drop for Disarm {
        fn drop(&mut self) {
            ARMED.with(|a| a.set(false));
        }
    }
    let d = Disarm;
    let r = f();
    drop(d);
    let st = AllocStats {
        max_request: MAX_REQ.with(|m| m.get()),
        allocations: N_ALLOC.with(|m| m.get()),
        peak_live: PEAK.with(|m| m.get()),
        retained: LIVE.with(|m| m.get()),
        refused: REFUSED.with(|m| m.get()),
    };
    (r, st)
}

pub fn alloc_disarm() {
    ARMED.with(|a| a.set(false));
}

// ------------------------------------------------------------------------------------------------
// Panic capture

#[derive(Debug, Clone)]
pub struct PanicRec {
    pub msg: String,
    pub file: String,
    pub line: u32,
    /// innermost frame inside the datasketches crate (function path), if any
    pub func: String,
    /// true if the panic location or the innermost non-std frame is in the library under test
    pub in_library: bool,
}

thread_local! {
    static LAST_PANIC: RefCell<Option<PanicRec>> = const { RefCell::new(None) };
    static FUNC_CACHE: RefCell<HashMap<(String, u32), (String, bool)>> = RefCell::new(HashMap::new());
    static QUIET: Cell<bool> = const { Cell::new(true) };
}

fn strip_hash(sym: &str) -> String {
    // drop the trailing ::h0123456789abcdef
    if let Some(pos) = sym.rfind("::h") {
        let tail = &sym[pos + 3..];
        if tail.len() == 16 && tail.chars().all(|c| c.is_ascii_hexdigit()) {
            return sym[..pos].to_string();
        }
    }
    sym.to_string()
}

/// "a::B<x::Y>::f" -> "a::B::f": drop generic arguments so that one source function has one name
fn strip_generics(sym: &str) -> String {
    let mut out = String::with_capacity(sym.len());
    let mut depth = 0usize;
    for c in sym.chars() {
        match c {
            '<' => depth += 1,
            '>' => depth = depth.saturating_sub(1),
            _ if depth == 0 => out.push(c),
            _ => {}
        }
    }
    // "<T as Trait>::f" style prefixes leave a leading "::"
    out.trim_start_matches("::").replace("::::", "::")
}

fn innermost_library_frame() -> (String, bool) {
    let bt = std::backtrace::Backtrace::force_capture();
    let text = format!("{}", bt);
    // frames look like "  12: datasketches::hll::array4::Array4::update\n             at /repo/...:123:9"
    let mut first_harness: Option<String> = None;
    for line in text.lines() {
        let t = line.trim_start();
        if let Some(pos) = t.find(": ") {
            let (num, rest) = t.split_at(pos);
            if !num.is_empty() && num.chars().all(|c| c.is_ascii_digit()) {
                let sym = strip_hash(rest[2..].trim());
                if sym.contains("datasketches::") && !sym.contains("dsverif::") {
                    // "<datasketches::a::B<T>>::f" / "<datasketches::a::B as core::..>::f" -> "datasketches::a::B::f"
                    let mut s = if sym.starts_with('<') {
                        // keep the self type, drop " as Trait"
                        let inner_end = sym.rfind(">::").unwrap_or(sym.len());
                        let inner = &sym[1..inner_end.min(sym.len())];
                        let self_ty = inner.split(" as ").next().unwrap_or(inner);
                        format!("{}{}", self_ty, &sym[inner_end.min(sym.len())..].trim_start_matches('>'))
                    } else {
                        sym.clone()
                    };
                    if let Some(start) = s.find("datasketches::") {
                        s = s[start..].to_string();
                    }
                    s = strip_generics(&s.replace("::{{closure}}", ""));
                    return (s, true);
                }
                if sym.contains("dsverif::") && first_harness.is_none() {
                    first_harness = Some(sym.clone());
                }
            }
        }
    }
    (first_harness.unwrap_or_default(), false)
}

pub fn install_panic_hook() {
    std::panic::set_hook(Box::new(|info| {
        alloc_disarm();
        let msg = if let Some(s) = info.payload().downcast_ref::<&str>() {
            s.to_string()
        } else if let Some(s) = info.payload().downcast_ref::<String>() {
            s.clone()
        } else {
            "<non-string panic payload>".to_string()
        };
        let (file, line) = match info.location() {
            Some(l) => (l.file().to_string(), l.line()),
            None => ("<unknown>".to_string(), 0),
        };
        // A panic raised at a location inside the library always comes from the same function, so the
        // (expensive) symbolised backtrace is taken once per location. A panic raised inside std (capacity
        // overflow, slice index, the allocation-error hook) can come from any caller: no caching.
        let key = (file.clone(), line);
        let cacheable = file.contains("datasketches/src");
        let cached = if cacheable { FUNC_CACHE.with(|c| c.borrow().get(&key).cloned()) } else { None };
        let (func, lib_frame) = match cached {
            Some(v) => v,
            None => {
                let v = innermost_library_frame();
                if cacheable {
                    FUNC_CACHE.with(|c| c.borrow_mut().insert(key, v.clone()));
                }
                v
            }
        };
        let in_library = file.contains("datasketches/src") || lib_frame;
        // a library function inlined into the harness has no frame of its own: name it by its source file
        let func = match (lib_frame, file.find("datasketches/src/")) {
            (false, Some(pos)) => format!("{} (inlined)", &file[pos..]),
            _ => func,
        };
        if !QUIET.with(|q| q.get()) {
            eprintln!("panic at {}:{}: {} [{}]", file, line, msg, func);
        }
        LAST_PANIC.with(|p| {
            *p.borrow_mut() = Some(PanicRec { msg, file, line, func, in_library });
        });
    }));
}

pub fn set_quiet(q: bool) {
    QUIET.with(|c| c.set(q));
}

/// Run `f`, converting a panic into a record.
pub fn guard<R>(f: impl FnOnce() -> R) -> Result<R, PanicRec> {
    LAST_PANIC.with(|p| *p.borrow_mut() = None);
    match catch_unwind(AssertUnwindSafe(f)) {
        Ok(r) => Ok(r),
        Err(_) => {
            alloc_disarm();
            let rec = LAST_PANIC.with(|p| p.borrow_mut().take());
            Err(rec.unwrap_or(PanicRec {
                msg: "<panic without record>".into(),
                file: "<unknown>".into(),
                line: 0,
                func: String::new(),
                in_library: false,
            }))
        }
    }
}

/// Replace every maximal run of digits by '#', so that signatures do not depend on values.
pub fn normalize_msg(msg: &str) -> String {
    let mut out = String::with_capacity(msg.len());
    let mut in_digits = false;
    for c in msg.chars() {
        if c.is_ascii_digit() {
            if !in_digits {
                out.push('#');
                in_digits = true;
            }
        } else {
            in_digits = false;
            out.push(c);
        }
    }
    if out.len() > 160 {
        let mut cut = 160;
        while !out.is_char_boundary(cut) {
            cut -= 1;
        }
        out.truncate(cut);
    }
    out
}

impl PanicRec {
    /// "function-path | normalised message"
    pub fn signature(&self) -> String {
        let f = if self.func.is_empty() {
            // fall back on the file name (no line number)
            self.file.rsplit('/').next().unwrap_or("").to_string()
        } else {
            self.func.clone()
        };
        format!("{} | {}", f, normalize_msg(&self.msg))
    }
}

// ------------------------------------------------------------------------------------------------
// Event log / context

#[derive(Clone, Copy, PartialEq, Eq, Debug)]
pub enum Tier {
    Quick,
    Thorough,
}

pub struct Violation {
    pub signature: String,
    pub message: String,
    pub case: Json,
}

pub struct Ctx {
    pub property: String,
    pub tier: Tier,
    /// where the shard writes its result (the hang witness goes next to it)
    pub out_path: Option<String>,
    pub hang_guard: bool,
    pub seed: u64,
    pub shard: usize,
    pub nshards: usize,
    pub profile: String,
    pub replaying: bool,
    pub evaluations: u64,
    pub cases: u64,
    pub fingerprints: HashSet<u64>,
    pub counters: BTreeMap<String, u64>,
    pub maxima: BTreeMap<String, f64>,
    pub notes: BTreeMap<String, Json>,
    pub samples: Vec<Json>,
    pub violations: Vec<Violation>,
    pub violation_counts: BTreeMap<String, u64>,
    pub inconclusive: Vec<String>,
    pub cur_case: Json,
}

impl Ctx {
    pub fn new(property: &str, tier: Tier, seed: u64, shard: usize, nshards: usize, profile: &str) -> Ctx {
        Ctx {
            property: property.to_string(),
            tier,
            out_path: None,
            hang_guard: false,
            seed,
            shard,
            nshards,
            profile: profile.to_string(),
            replaying: false,
            evaluations: 0,
            cases: 0,
            fingerprints: HashSet::new(),
            counters: BTreeMap::new(),
            maxima: BTreeMap::new(),
            notes: BTreeMap::new(),
            samples: vec![],
            violations: vec![],
            violation_counts: BTreeMap::new(),
            inconclusive: vec![],
            cur_case: Json::Null,
        }
    }
    pub fn quick(&self) -> bool {
        self.tier == Tier::Quick
    }
    /// pick by tier
    pub fn tier_pick<T>(&self, quick: T, thorough: T) -> T {
        if self.quick() {
            quick
        } else {
            thorough
        }
    }
    /// A per-shard, per-purpose RNG.
    pub fn rng(&self, label: &str) -> Rng {
        Rng::new(mix(&[self.seed, self.shard as u64, mix_str(label), mix_str(&self.property)]))
    }
    /// Seed for case `i` of lane `lane` (unique across shards).
    pub fn case_seed(&self, lane: &str, i: u64) -> u64 {
        mix(&[self.seed, mix_str(lane), self.shard as u64, i, mix_str(&self.property)])
    }
    pub fn begin_case(&mut self, case: Json) {
        if self.hang_guard {
            // the case in flight, for the hang watchdog (see `start_case_watchdog`)
            let label = ["via", "what", "lane", "family", "scenario"]
                .iter()
                .filter_map(|k| case.str(k))
                .collect::<Vec<_>>()
                .join("/");
            hang::arm(&label, case.dump().as_bytes());
        }
        self.cur_case = case;
        self.cases += 1;
    }
    /// Per-case hang guard for the behavioural monitors: a case (one history, one program, one cell) that is still
    /// running after `limit_s` seconds is written out as a witness and the shard ends with exit code 86; the driver
    /// replays the witness alone twice before it reports "does not return". (C14 arms per deserialize call instead.)
    pub fn start_case_watchdog(&mut self, limit_s: u64) {
        let out = match &self.out_path {
            Some(p) => format!("{}.hang.json", p),
            None => return,
        };
        let _ = std::fs::remove_file(&out);
        let (property, profile) = (self.property.clone(), self.profile.clone());
        self.hang_guard = true;
        hang::start_watchdog(std::time::Duration::from_secs(limit_s), move |label, input, secs| {
            let case = Json::parse(std::str::from_utf8(input).unwrap_or("{}")).unwrap_or(Json::obj()).set("profile", profile.as_str());
            let j = Json::obj()
                .set("property", property.as_str())
                .set("signature", format!("{} | does not return | {}", property, label).as_str())
                .set("message", format!("a case ({}) was still running after {} s", label, secs).as_str())
                .set("case", case);
            let _ = std::fs::write(&out, j.dump());
        });
    }
    /// Record the end of a case: its fingerprint counts towards distinct_nontrivial if nontrivial.
    pub fn end_case(&mut self, fingerprint: u64, nontrivial: bool) {
        if self.hang_guard {
            hang::disarm();
        }
        if nontrivial {
            self.fingerprints.insert(fingerprint);
        }
    }
    pub fn evals(&mut self, n: u64) {
        self.evaluations += n;
    }
    pub fn cover(&mut self, key: &str) {
        *self.counters.entry(key.to_string()).or_insert(0) += 1;
    }
    pub fn cover_n(&mut self, key: &str, n: u64) {
        *self.counters.entry(key.to_string()).or_insert(0) += n;
    }
    pub fn cover_max(&mut self, key: &str, v: f64) {
        let e = self.maxima.entry(key.to_string()).or_insert(f64::NEG_INFINITY);
        if v > *e {
            *e = v;
        }
    }
    pub fn note(&mut self, key: &str, v: Json) {
        self.notes.insert(key.to_string(), v);
    }
    pub fn sample(&mut self, v: Json) {
        if self.samples.len() < 3 {
            self.samples.push(v);
        }
    }
    pub fn violation(&mut self, signature: &str, message: String) {
        let sig = format!("{} | {}", self.property, signature);
        let n = self.violation_counts.entry(sig.clone()).or_insert(0);
        *n += 1;
        // keep at most 3 witnesses per signature and 400 overall
        if *n <= 3 && self.violations.len() < 400 {
            let mut case = self.cur_case.clone();
            if let Json::Obj(_) = case {
                case.put("profile", self.profile.as_str());
            }
            self.violations.push(Violation { signature: sig, message, case });
        }
    }
    /// A panic raised by the library during a call that the property requires to succeed.
    pub fn panic_violation(&mut self, entry: &str, rec: &PanicRec) {
        if rec.in_library {
            let sig = format!("panic | {} | {}", entry, rec.signature());
            self.violation(&sig, format!("panic at {}:{}: {}", rec.file, rec.line, rec.msg));
        } else {
            self.inconclusive(format!(
                "harness panic in {} at {}:{}: {}",
                entry, rec.file, rec.line, rec.msg
            ));
        }
    }
    pub fn inconclusive(&mut self, why: String) {
        if self.inconclusive.len() < 20 {
            self.inconclusive.push(why);
        }
    }
    /// check helper: returns cond; records a violation if false
    pub fn check(&mut self, cond: bool, signature: &str, message: impl FnOnce() -> String) -> bool {
        self.evaluations += 1;
        if !cond {
            self.violation(signature, message());
        }
        cond
    }

    pub fn to_json(&self) -> Json {
        let mut counters = Json::obj();
        for (k, v) in &self.counters {
            counters.put(k, *v);
        }
        let mut maxima = Json::obj();
        for (k, v) in &self.maxima {
            maxima.put(k, *v);
        }
        let mut notes = Json::obj();
        for (k, v) in &self.notes {
            notes.put(k, v.clone());
        }
        let mut vc = Json::obj();
        for (k, v) in &self.violation_counts {
            vc.put(k, *v);
        }
        let viols: Vec<Json> = self
            .violations
            .iter()
            .map(|v| {
                Json::obj()
                    .set("signature", v.signature.as_str())
                    .set("message", v.message.as_str())
                    .set("case", v.case.clone())
            })
            .collect();
        // exact up to FP_EXACT_MAX distinct cases per shard; beyond that a 1-in-64 hash sample is reported and the
        // driver scales the count of the sampled union (and says so in the evidence)
        const FP_EXACT_MAX: usize = 250_000;
        let sampled = self.fingerprints.len() > FP_EXACT_MAX;
        let mut fps: Vec<u64> = self.fingerprints.iter().copied().filter(|f| !sampled || f & 63 == 0).collect();
        fps.sort_unstable();
        // fingerprints can be many; keep them as decimal strings joined, cheap to parse
        let fp_json: Vec<Json> = fps.iter().map(|f| Json::Str(format!("{:x}", f))).collect();
        Json::obj()
            .set("property", self.property.as_str())
            .set("profile", self.profile.as_str())
            .set("shard", self.shard)
            .set("evaluations", self.evaluations)
            .set("cases", self.cases)
            .set("fingerprints", Json::Arr(fp_json))
            .set("fingerprints_sampled", sampled)
            .set("fingerprints_in_shard", self.fingerprints.len() as u64)
            .set("counters", counters)
            .set("maxima", maxima)
            .set("notes", notes)
            .set("samples", Json::Arr(self.samples.clone()))
            .set("violations", Json::Arr(viols))
            .set("violation_counts", vc)
            .set("inconclusive", Json::Arr(self.inconclusive.iter().map(|s| Json::Str(s.clone())).collect()))
    }
}

/// 64-bit FNV-style fingerprint builder for "distinct case" accounting.
#[derive(Clone, Copy)]
pub struct Fp(pub u64);
impl Fp {
    pub fn new() -> Fp {
        Fp(0xcbf29ce484222325)
    }
    #[inline]
    pub fn u64(&mut self, v: u64) {
        let mut x = self.0 ^ v;
        self.0 = splitmix64(&mut x);
    }
    pub fn bytes(&mut self, b: &[u8]) {
        for chunk in b.chunks(8) {
            let mut w = [0u8; 8];
            w[..chunk.len()].copy_from_slice(chunk);
            self.u64(u64::from_le_bytes(w));
        }
        self.u64(b.len() as u64);
    }
    pub fn f64(&mut self, v: f64) {
        self.u64(v.to_bits());
    }
    pub fn get(&self) -> u64 {
        self.0
    }
}

pub fn rel_close(a: f64, b: f64, tol: f64) -> bool {
    if a == b {
        return true;
    }
    if !a.is_finite() || !b.is_finite() {
        return false;
    }
    (a - b).abs() <= tol * a.abs().max(b.abs()).max(1e-300)
}


/// Reference canonicalisation of a double before hashing (Java's `Double.doubleToLongBits` after `-0.0 -> 0.0`):
/// one NaN, one zero.
pub fn canonical_f64_bits(v: f64) -> u64 {
    if v.is_nan() {
        0x7ff8_0000_0000_0000
    } else if v == 0.0 {
        0
    } else {
        v.to_bits()
    }
}

/// Doubles whose bit patterns are not canonical, mixed with ordinary ones.
pub fn special_f64(rng: &mut Rng) -> f64 {
    match rng.below(12) {
        0 => 0.0,
        1 => -0.0,
        2 => f64::NAN,
        3 => f64::from_bits(0x7ff8_0000_0000_0001 | (rng.next_u64() & 0x0007_ffff_ffff_fffe)), // quiet NaN with a payload
        4 => f64::from_bits(0xfff8_0000_0000_0000), // negative NaN
        5 => f64::from_bits(0x7ff0_0000_0000_0001 | (rng.next_u64() & 0x0007_ffff_ffff_ffff)), // signalling NaN
        6 => f64::INFINITY,
        7 => f64::NEG_INFINITY,
        8 => f64::from_bits(rng.below(1 << 20) + 1), // subnormal
        9 => f64::MAX,
        _ => (rng.below(64) as f64) / 4.0 - 3.0,
    }
}

/// Singles whose widening to double is not canonical, mixed with ordinary ones.
pub fn special_f32(rng: &mut Rng) -> f32 {
    match rng.below(10) {
        0 => 0.0,
        1 => -0.0,
        2 => f32::NAN,
        3 => f32::from_bits(0x7fc0_0001 | (rng.next_u32() & 0x003f_fffe)),
        4 => f32::from_bits(0xffc0_0000),
        5 => f32::INFINITY,
        6 => f32::NEG_INFINITY,
        7 => f32::from_bits(rng.below(1 << 20) as u32 + 1),
        _ => (rng.below(64) as f32) / 4.0 - 3.0,
    }
}


/// Hang guard (C14 "never loops"): the monitor publishes which call is in flight; a watchdog thread turns a call
/// that is still running after `limit` into a witness file and ends the process with exit code 86. The driver
/// replays the witness alone and reports a violation only if the overrun reproduces (a starved shard on a
/// loaded machine is inconclusive, not a violation).
pub mod hang {
    use std::sync::atomic::{AtomicBool, AtomicU64, Ordering};
    use std::sync::Mutex;
    use std::time::{Duration, Instant};

    static SEQ: AtomicU64 = AtomicU64::new(0);
    static ARMED: AtomicBool = AtomicBool::new(false);
    static CUR: Mutex<(String, Vec<u8>)> = Mutex::new((String::new(), Vec::new()));
    pub const EXIT_CODE: i32 = 86;

    pub fn arm(entry: &str, input: &[u8]) {
        if let Ok(mut g) = CUR.lock() {
            g.0.clear();
            g.0.push_str(entry);
            g.1.clear();
            g.1.extend_from_slice(input);
        }
        SEQ.fetch_add(1, Ordering::SeqCst);
        ARMED.store(true, Ordering::SeqCst);
    }

    pub fn disarm() {
        ARMED.store(false, Ordering::SeqCst);
        SEQ.fetch_add(1, Ordering::SeqCst);
    }

    /// `write_witness(entry, input, seconds)` must write the witness where the driver looks for it.
    pub fn start_watchdog(limit: Duration, write_witness: impl Fn(&str, &[u8], u64) + Send + 'static) {
        std::thread::spawn(move || {
            let mut seen = u64::MAX;
            let mut since = Instant::now();
            loop {
                std::thread::sleep(Duration::from_millis(200));
                let seq = SEQ.load(Ordering::SeqCst);
                if !ARMED.load(Ordering::SeqCst) || seq != seen {
                    seen = seq;
                    since = Instant::now();
                    continue;
                }
                if since.elapsed() >= limit {
                    let g = match CUR.lock() {
                        Ok(g) => g,
                        Err(p) => p.into_inner(),
                    };
                    write_witness(&g.0, &g.1, since.elapsed().as_secs());
                    std::process::exit(EXIT_CODE);
                }
            }
        });
    }
}
