//! t-digest images: the DataSketches native layout (double and float element types) and the
//! big-endian encodings of the reference implementation (asBytes / asSmallBytes).
//!
//! native: [0] preLongs (1 = empty or single value, 2 otherwise) [1] serVer = 1 [2] family = 20
//!         [3..5] k u16 LE [5] flags (1 EMPTY, 2 SINGLE_VALUE, 4 REVERSE_MERGE) [6..8] unused
//!         single: value (f64 | f32)
//!         else:   numCentroids u32 @8, numBuffered u32 @12, min, max (f64 | f32),
//!                 centroids (mean f64 + weight u64 | mean f32 + weight u32), buffered values (f64 | f32)
//! reference (big-endian): type u32: 1 = verbose: min f64, max f64, compression f64, n u32, (weight f64, mean f64)*
//!                                   2 = small:   min f64, max f64, compression f32, mainSize u16, bufSize u16, n u16,
//!                                                (weight f32, mean f32)*

use super::{Fields, Rd, Wr};

#[derive(Clone, Debug, PartialEq)]
pub struct TdImage {
    pub k: u16,
    pub empty: bool,
    pub single: bool,
    pub reverse_merge: bool,
    pub min: f64,
    pub max: f64,
    pub centroids: Vec<(f64, u64)>,
    pub buffered: Vec<f64>,
}

impl TdImage {
    pub fn total_weight(&self) -> u64 {
        self.centroids.iter().map(|c| c.1).sum::<u64>() + self.buffered.len() as u64
    }
}

pub fn decode_native(img: &[u8], float: bool) -> Result<(TdImage, Fields), String> {
    let mut r = Rd::new(img);
    let pre = r.u8("preamble_longs")?;
    let ver = r.u8("serial_version")?;
    let fam = r.u8("family")?;
    let k = r.u16le("k")?;
    let flags = r.u8("flags")?;
    r.u16le("unused")?;
    if ver != 1 {
        return Err(format!("serial version {} != 1", ver));
    }
    if fam != 20 {
        return Err(format!("family {} != 20", fam));
    }
    if flags & !7 != 0 {
        return Err(format!("unknown flag bits {:02x}", flags));
    }
    let empty = flags & 1 != 0;
    let single = flags & 2 != 0;
    let reverse_merge = flags & 4 != 0;
    let want_pre = if empty || single { 1 } else { 2 };
    if pre != want_pre {
        return Err(format!("preamble longs {} but flags {:02x} imply {}", pre, flags, want_pre));
    }
    let mut im = TdImage { k, empty, single, reverse_merge, min: f64::INFINITY, max: f64::NEG_INFINITY, centroids: vec![], buffered: vec![] };
    if empty {
        r.expect_end()?;
        return Ok((im, r.fields));
    }
    if single {
        let v = if float { r.f32le("single_value")? as f64 } else { r.f64le("single_value")? };
        im.min = v;
        im.max = v;
        im.centroids.push((v, 1));
        r.expect_end()?;
        return Ok((im, r.fields));
    }
    let nc = r.u32le("num_centroids")? as usize;
    let nb = r.u32le("num_buffered")? as usize;
    if float {
        im.min = r.f32le("min")? as f64;
        im.max = r.f32le("max")? as f64;
    } else {
        im.min = r.f64le("min")?;
        im.max = r.f64le("max")?;
    }
    let per = if float { 8 } else { 16 };
    if nc.checked_mul(per).map(|x| x > r.remaining()).unwrap_or(true) {
        return Err(format!("num_centroids {} does not fit the image", nc));
    }
    for _ in 0..nc {
        if float {
            let m = r.f32le("centroid_mean")? as f64;
            let w = r.u32le("centroid_weight")? as u64;
            im.centroids.push((m, w));
        } else {
            let m = r.f64le("centroid_mean")?;
            let w = r.u64le("centroid_weight")?;
            im.centroids.push((m, w));
        }
    }
    if nb.checked_mul(per / 2).map(|x| x > r.remaining()).unwrap_or(true) {
        return Err(format!("num_buffered {} does not fit the image", nb));
    }
    for _ in 0..nb {
        let v = if float { r.f32le("buffered_value")? as f64 } else { r.f64le("buffered_value")? };
        im.buffered.push(v);
    }
    r.expect_end()?;
    Ok((im, r.fields))
}

pub fn encode_native(im: &TdImage, float: bool) -> Vec<u8> {
    let mut w = Wr::new();
    let total = im.total_weight();
    let empty = total == 0;
    let single = total == 1;
    w.u8(if empty || single { 1 } else { 2 });
    w.u8(1);
    w.u8(20);
    w.u16le(im.k);
    w.u8((empty as u8) | ((single as u8) << 1) | ((im.reverse_merge as u8) << 2));
    w.u16le(0);
    if empty {
        return w.b;
    }
    if single {
        let v = im.centroids.first().map(|c| c.0).or(im.buffered.first().copied()).unwrap();
        if float {
            w.f32le(v as f32)
        } else {
            w.f64le(v)
        }
        return w.b;
    }
    w.u32le(im.centroids.len() as u32);
    w.u32le(im.buffered.len() as u32);
    if float {
        w.f32le(im.min as f32);
        w.f32le(im.max as f32);
        for &(m, wt) in &im.centroids {
            w.f32le(m as f32);
            w.u32le(wt as u32);
        }
        for &v in &im.buffered {
            w.f32le(v as f32);
        }
    } else {
        w.f64le(im.min);
        w.f64le(im.max);
        for &(m, wt) in &im.centroids {
            w.f64le(m);
            w.u64le(wt);
        }
        for &v in &im.buffered {
            w.f64le(v);
        }
    }
    w.b
}

/// reference implementation, verbose encoding (asBytes), big-endian
pub fn encode_ref_double(im: &TdImage) -> Vec<u8> {
    let mut w = Wr::new();
    w.u32be(1);
    w.f64be(im.min);
    w.f64be(im.max);
    w.f64be(im.k as f64);
    w.u32be(im.centroids.len() as u32);
    for &(m, wt) in &im.centroids {
        w.f64be(wt as f64);
        w.f64be(m);
    }
    w.b
}

/// reference implementation, small encoding (asSmallBytes), big-endian
pub fn encode_ref_float(im: &TdImage) -> Vec<u8> {
    let mut w = Wr::new();
    w.u32be(2);
    w.f64be(im.min);
    w.f64be(im.max);
    w.f32be(im.k as f32);
    w.u16be((2 * im.k as u32 + 30).min(65535) as u16); // main array size
    w.u16be((5 * (2 * im.k as u32 + 30)).min(65535) as u16); // buffer size
    w.u16be(im.centroids.len() as u16);
    for &(m, wt) in &im.centroids {
        w.f32be(wt as f32);
        w.f32be(m as f32);
    }
    w.b
}
