//! Specification codec for the Apache DataSketches CPC ("FM85") *compressed* binary image.
//!
//! This is an independent re-implementation of the image format written by datasketches-java
//! (`CpcSketch.toByteArray`), datasketches-cpp (`cpc_sketch::serialize`) and datasketches-rust.
//! It deliberately does not call into the library under test: it works on the mathematical
//! object the image denotes, namely the `k x 64` bit matrix of collected coupons
//! (`k = 2^lg_k` rows, one `u64` per row, bit `c` of row `r` set iff coupon `(r, c)` was seen).
//!
//! # The format
//!
//! All multi-byte quantities are little-endian.  `C` is the number of coupons (= number of set
//! bits of the matrix), `K = 2^lg_k`.
//!
//! ```text
//! byte 0  preamble_ints   number of 4-byte ints before the compressed streams
//! byte 1  serial_version  1
//! byte 2  family_id       16 (CPC)
//! byte 3  lg_k            4..=26
//! byte 4  first_interesting_column   0..=63 (every column below it is all ones)
//! byte 5  flags           bit0 reserved(big-endian)=0, bit1 COMPRESSED=1, bit2 HAS_HIP,
//!                         bit3 HAS_TABLE (surprising values), bit4 HAS_WINDOW, bits5-7 = 0
//! byte 6-7 seed_hash
//!
//!   table window hip | preamble_ints | fields after byte 8 (u32 unless noted)
//!   -----------------+---------------+--------------------------------------------------------
//!     0     0     *  |   2           | (empty sketch, C = 0)
//!     1     0     0  |   4           | C, table_words
//!     1     0     1  |   8           | C, table_words, kxp(f64), hip_accum(f64)
//!     0     1     0  |   4           | C, window_words
//!     0     1     1  |   8           | C, window_words, kxp(f64), hip_accum(f64)
//!     1     1     0  |   6           | C, num_pairs, table_words, window_words
//!     1     1     1  |  10           | C, num_pairs, kxp(f64), hip_accum(f64), table_words, window_words
//!
//! then window_words u32 of window stream, then table_words u32 of table (pair) stream.
//! ```
//!
//! Flavor (from `lg_k`, `C`): Empty `C = 0`; Sparse `32C < 3K`; Hybrid `2C < K`;
//! Pinned `8C < 27K`; Sliding otherwise.  Sparse and Hybrid images carry only the table
//! (every set bit is a pair, `num_pairs = C`); Pinned and Sliding images carry the window and,
//! if there is at least one pair, the table.
//!
//! Window offset `= max(0, (8C - 19K) >> (lg_k + 3))` (0 for every flavor except Sliding).
//! The *window* is the byte `(row >> offset) & 0xff` of every row.  *Pairs* ("surprising
//! values") are `(row, col)` positions outside the window: set bits in columns `>= offset + 8`
//! and, in the Sliding flavor, UNSET bits in columns `< offset` (the "early zone" is expected to
//! be all ones, so the zeros are the surprises).
//!
//! Both streams are LSB-first bit streams: bit `n` of a stream is bit `n mod 32` of its
//! little-endian u32 word `n div 32` (equivalently bit `n mod 8` of byte `n div 8`).  Code
//! words are emitted least significant bit first.
//!
//! * Window stream: the `K` window bytes, row 0 first, each coded with the length-limited
//!   (max 12 bits) Huffman code number `pseudo_phase(lg_k, C)` of the 22 tables, followed by
//!   11 zero padding bits, rounded up to whole words.
//! * Pair stream: the pairs are first mapped to a canonical column: Sparse/Hybrid: `col`;
//!   Pinned: `col - 8`; Sliding: `perm[phase][(col + 56 - offset) mod 64]` (a value in 0..56);
//!   then sorted by `(row, mapped col)`.  Each pair is coded as
//!   `x_delta` (column minus predicted column; predicted column is 0 at the start of a row and
//!   previous column + 1 otherwise) with the 65-symbol length-limited unary code, then
//!   `y_delta` (row minus previous row) as a Golomb code: `y_delta >> B` in unary (that many
//!   zeros and a one) and the low `B` bits verbatim, where
//!   `B = floor(log2(K / num_pairs))` (0 if `num_pairs > K`).  The stream ends with
//!   `max(0, 10 - B)` zero padding bits, rounded up to whole words.
//!
//! # Strictness
//!
//! `decode` accepts exactly the images a conforming writer can produce for *some* bit matrix
//! and HIP state; anything else is an `Err`.  Every error string starts with a category tag:
//! `preamble:` (fixed header / flags / preamble-int count), `length:` (image size versus the
//! declared stream sizes), `flavor:` (flag combination illegal for the flavor implied by C),
//! `stream:` (bit stream cannot be decoded, is not exactly consumed, or has non-zero padding),
//! `semantic:` (streams decode but contradict the header: coupon count, first interesting
//! column), `limit:` (valid format but outside what this implementation materialises).
//! The double-valued HIP fields are returned verbatim and are not range-checked.

use super::cpc_tables::*;

/// the codec is integrated (a placeholder module with AVAILABLE = false existed while it was being written)
pub const AVAILABLE: bool = true;

/// (offset, len, name) of every preamble field, for a structure-aware mutator.
///
/// The two compressed streams are appended as `window_stream` and `table_stream` when present.
pub type Fields = Vec<(usize, usize, &'static str)>;

#[derive(Clone, Debug, PartialEq)]
pub struct CpcImage {
    pub lg_k: u8,
    pub seed_hash: u16,
    pub first_interesting_column: u8,
    pub num_coupons: u32,
    pub has_hip: bool,
    pub kxp: f64,          // valid if has_hip
    pub hip_accum: f64,    // valid if has_hip
    pub flags: u8,
    pub preamble_ints: u8,
    pub window_offset: u8, // derived from (lg_k, num_coupons)
    pub matrix: Vec<u64>,  // the k x 64 bit matrix the image encodes (row r, bit c = column c)
}

pub const SERIAL_VERSION: u8 = 1;
pub const FAMILY_ID: u8 = 16;
pub const MIN_LG_K: u8 = 4;
pub const MAX_LG_K: u8 = 26;
pub const FLAG_COMPRESSED: u8 = 1 << 1;
pub const FLAG_HAS_HIP: u8 = 1 << 2;
pub const FLAG_HAS_TABLE: u8 = 1 << 3;
pub const FLAG_HAS_WINDOW: u8 = 1 << 4;
/// Bit 0 (big-endian, never written) and bits 5..7 (unused).
pub const FLAG_RESERVED_MASK: u8 = 0b1110_0001;
/// Seed hash of the default update seed 9001.
pub const DEFAULT_SEED_HASH: u16 = 0x93cc;

#[derive(Clone, Copy, Debug, PartialEq, Eq)]
pub enum Flavor {
    Empty,
    Sparse,
    Hybrid,
    Pinned,
    Sliding,
}

// ------------------------------------------------------------------------------------------
// Derived quantities (all in u64 so that nothing can overflow for lg_k <= 26, C <= 64 K)
// ------------------------------------------------------------------------------------------

pub fn flavor_of(lg_k: u8, num_coupons: u32) -> Flavor {
    let k = 1u64 << lg_k;
    let c = num_coupons as u64;
    if c == 0 {
        Flavor::Empty
    } else if 32 * c < 3 * k {
        Flavor::Sparse
    } else if 2 * c < k {
        Flavor::Hybrid
    } else if 8 * c < 27 * k {
        Flavor::Pinned
    } else {
        Flavor::Sliding
    }
}

/// max(0, (8C - 19K) >> (lg_k + 3)); may exceed 56 for (unreachable) nearly full matrices.
pub fn window_offset_of(lg_k: u8, num_coupons: u32) -> u8 {
    let k = 1i64 << lg_k;
    let t = 8 * (num_coupons as i64) - 19 * k;
    if t < 0 {
        0
    } else {
        (t >> (lg_k + 3)) as u8
    }
}

/// Index (0..22) of the Huffman table for the window bytes; for C >= 2.375 K it is the true
/// phase (0..16), which also selects the column permutation of the Sliding flavor.
pub fn pseudo_phase_of(lg_k: u8, num_coupons: u32) -> usize {
    let k = 1u64 << lg_k;
    let c = num_coupons as u64;
    if 1000 * c < 2375 * k {
        if 4 * c < 3 * k {
            16
        } else if 10 * c < 11 * k {
            17
        } else if 100 * c < 132 * k {
            18
        } else if 3 * c < 5 * k {
            19
        } else if 1000 * c < 1965 * k {
            20
        } else if 1000 * c < 2275 * k {
            21
        } else {
            6
        }
    } else {
        ((c >> (lg_k - 4)) & 15) as usize
    }
}

/// Number of verbatim low bits of the Golomb code for the row deltas of `num_pairs` pairs.
pub fn golomb_base_bits(lg_k: u8, num_pairs: u64) -> u32 {
    debug_assert!(num_pairs > 0);
    let q = (1u64 << lg_k) / num_pairs; // = ((k + n) - n) / n
    if q == 0 {
        0
    } else {
        63 - q.leading_zeros()
    }
}

/// Preamble ints for a flag combination (C > 0 is implied by table or window being present).
pub fn preamble_ints_for(has_hip: bool, has_table: bool, has_window: bool) -> u8 {
    if !has_table && !has_window {
        return 2;
    }
    let mut n = 3; // 2 + num_coupons
    if has_hip {
        n += 4;
    }
    if has_table {
        n += 1;
    }
    if has_window {
        n += 1;
    }
    if has_table && has_window {
        n += 1; // num_pairs
    }
    n
}

// ------------------------------------------------------------------------------------------
// Bit streams
// ------------------------------------------------------------------------------------------

struct BitReader<'a> {
    bytes: &'a [u8],
    pos: u64,   // in bits
    nbits: u64, // 8 * bytes.len()
}

impl<'a> BitReader<'a> {
    fn new(bytes: &'a [u8]) -> Self {
        BitReader { bytes, pos: 0, nbits: 8 * bytes.len() as u64 }
    }

    /// The next `n <= 32` bits (first stream bit in bit 0); bits past the end read as zero.
    fn peek(&self, n: u32) -> u32 {
        debug_assert!(n <= 32);
        let first = (self.pos >> 3) as usize;
        let shift = (self.pos & 7) as u32;
        let mut acc = 0u64;
        for i in 0..5usize {
            if let Some(&b) = self.bytes.get(first + i) {
                acc |= (b as u64) << (8 * i);
            }
        }
        let v = acc >> shift;
        if n == 32 {
            v as u32
        } else {
            (v & ((1u64 << n) - 1)) as u32
        }
    }

    fn advance(&mut self, n: u32, what: &str) -> Result<(), String> {
        if self.pos + n as u64 > self.nbits {
            return Err(format!(
                "stream: {what} runs past the end of the stream (bit {} + {n} > {})",
                self.pos, self.nbits
            ));
        }
        self.pos += n as u64;
        Ok(())
    }

    /// One symbol of a 12-bit length-limited prefix code given by its 4096-entry decoding table
    /// (entry = length << 8 | symbol).
    fn symbol(&mut self, table: &[u16; 4096], what: &str) -> Result<u8, String> {
        let e = table[self.peek(12) as usize];
        self.advance((e >> 8) as u32, what)?;
        Ok((e & 0xff) as u8)
    }

    /// Unary: number of zero bits before the terminating one bit; `limit` bounds the value.
    fn unary(&mut self, limit: u64, what: &str) -> Result<u64, String> {
        let mut total = 0u64;
        loop {
            if self.pos >= self.nbits {
                return Err(format!("stream: {what} runs past the end of the stream"));
            }
            let chunk = self.peek(32);
            if chunk == 0 {
                let avail = (self.nbits - self.pos).min(32) as u32;
                self.advance(avail, what)?;
                total += avail as u64;
            } else {
                let z = chunk.trailing_zeros();
                self.advance(z + 1, what)?;
                total += z as u64;
                if total > limit {
                    return Err(format!("stream: {what} = {total} exceeds {limit}"));
                }
                return Ok(total);
            }
            if total > limit {
                return Err(format!("stream: {what} exceeds {limit}"));
            }
        }
    }

    fn bits(&mut self, n: u32, what: &str) -> Result<u32, String> {
        let v = self.peek(n);
        self.advance(n, what)?;
        Ok(v)
    }

    /// A conforming writer ends the stream with `padding` zero bits and rounds up to whole
    /// 32-bit words, writing zeros: check exactly that.
    fn finish(&self, padding: u32, what: &str) -> Result<(), String> {
        let expect_words = (self.pos + padding as u64).div_ceil(32);
        let have_words = self.nbits / 32;
        if expect_words != have_words {
            return Err(format!(
                "stream: {what} uses {} data bits + {padding} padding bits = {expect_words} words, but {have_words} words are declared",
                self.pos
            ));
        }
        let mut p = self.pos;
        while p < self.nbits {
            let byte = self.bytes[(p >> 3) as usize];
            let rest = byte >> (p & 7);
            if rest != 0 {
                return Err(format!("stream: {what} has non-zero padding bits after bit {}", self.pos));
            }
            p = (p | 7) + 1;
        }
        Ok(())
    }
}

struct BitWriter {
    bytes: Vec<u8>,
    nbits: u64,
}

impl BitWriter {
    fn new() -> Self {
        BitWriter { bytes: Vec::new(), nbits: 0 }
    }

    /// Append the low `n <= 32` bits of `v`, least significant first.
    fn put(&mut self, v: u32, n: u32) {
        for i in 0..n {
            let bit = ((v >> i) & 1) as u8;
            let at = (self.nbits >> 3) as usize;
            if at == self.bytes.len() {
                self.bytes.push(0);
            }
            self.bytes[at] |= bit << (self.nbits & 7);
            self.nbits += 1;
        }
    }

    fn put_zeros(&mut self, n: u64) {
        self.nbits += n;
        let need = self.nbits.div_ceil(8) as usize;
        if self.bytes.len() < need {
            self.bytes.resize(need, 0);
        }
    }

    fn put_unary(&mut self, v: u64) {
        self.put_zeros(v);
        self.put(1, 1);
    }

    /// Add the padding bits and round up to whole little-endian u32 words.
    fn finish(mut self, padding: u32) -> Vec<u8> {
        self.put_zeros(padding as u64);
        let words = self.nbits.div_ceil(32) as usize;
        self.bytes.resize(4 * words, 0);
        self.bytes
    }
}

// ------------------------------------------------------------------------------------------
// Pair list <-> stream
// ------------------------------------------------------------------------------------------

/// Decodes `num_pairs` (row, canonical col) pairs; they come out strictly increasing.
fn read_pairs(
    stream: &[u8],
    lg_k: u8,
    num_pairs: u32,
    max_col: u32,
    strict_padding: bool,
) -> Result<Vec<(u32, u8)>, String> {
    let k = 1u64 << lg_k;
    let b = golomb_base_bits(lg_k, num_pairs as u64);
    let mut rd = BitReader::new(stream);
    // every pair takes at least 1 (x) + 1 (unary terminator) + b bits
    if (num_pairs as u64) * (2 + b as u64) > rd.nbits {
        return Err(format!(
            "length: {num_pairs} pairs cannot fit in a table stream of {} bits",
            rd.nbits
        ));
    }
    let mut pairs = Vec::with_capacity(num_pairs as usize);
    let mut row = 0u64;
    let mut next_col = 0u32;
    for i in 0..num_pairs {
        let x_delta = rd.symbol(&LENGTH_LIMITED_UNARY_DECODING_TABLE65, "pair column delta")? as u32;
        let hi = rd.unary((k - 1 - row) >> b, "pair row delta (golomb high part)")?;
        let lo = rd.bits(b, "pair row delta (golomb low part)")? as u64;
        let y_delta = (hi << b) | lo;
        if y_delta > 0 {
            next_col = 0;
        }
        row += y_delta;
        let col = next_col + x_delta;
        if row >= k {
            return Err(format!("stream: pair {i} has row {row} >= k = {k}"));
        }
        if col >= max_col {
            return Err(format!("stream: pair {i} has column code {col} >= {max_col}"));
        }
        pairs.push((row as u32, col as u8));
        next_col = col + 1;
    }
    if strict_padding {
        rd.finish(10u32.saturating_sub(b), "table stream")?;
    }
    Ok(pairs)
}

/// `pairs` must be sorted by (row, canonical col) and free of duplicates.
fn write_pairs(pairs: &[(u32, u8)], lg_k: u8) -> Vec<u8> {
    let b = golomb_base_bits(lg_k, pairs.len() as u64);
    let mut wr = BitWriter::new();
    let mut row = 0u32;
    let mut next_col = 0u32;
    for &(r, c) in pairs {
        if r != row {
            next_col = 0;
        }
        let x_delta = c as u32 - next_col;
        let y_delta = r - row;
        let code = LENGTH_LIMITED_UNARY_ENCODING_TABLE65[x_delta as usize];
        wr.put((code & 0xfff) as u32, (code >> 12) as u32);
        wr.put_unary((y_delta >> b) as u64);
        wr.put(y_delta & ((1u32 << b) - 1), b);
        row = r;
        next_col = c as u32 + 1;
    }
    wr.finish(10u32.saturating_sub(b))
}

fn read_window(stream: &[u8], lg_k: u8, num_coupons: u32, strict_padding: bool) -> Result<Vec<u8>, String> {
    let k = 1usize << lg_k;
    let mut rd = BitReader::new(stream);
    if k as u64 > rd.nbits {
        return Err(format!(
            "length: {k} window bytes cannot fit in a window stream of {} bits",
            rd.nbits
        ));
    }
    let table = &DECODING_TABLES_FOR_HIGH_ENTROPY_BYTE[pseudo_phase_of(lg_k, num_coupons)];
    let mut window = Vec::with_capacity(k);
    for _ in 0..k {
        window.push(rd.symbol(table, "window byte")?);
    }
    if strict_padding {
        rd.finish(11, "window stream")?;
    }
    Ok(window)
}

fn write_window(window: &[u8], lg_k: u8, num_coupons: u32) -> Vec<u8> {
    let table = &ENCODING_TABLES_FOR_HIGH_ENTROPY_BYTE[pseudo_phase_of(lg_k, num_coupons)];
    let mut wr = BitWriter::new();
    for &byte in window {
        let code = table[byte as usize];
        wr.put((code & 0xfff) as u32, (code >> 12) as u32);
    }
    wr.finish(11)
}

// ------------------------------------------------------------------------------------------
// decode
// ------------------------------------------------------------------------------------------

fn rd_u32(img: &[u8], at: usize) -> u32 {
    u32::from_le_bytes([img[at], img[at + 1], img[at + 2], img[at + 3]])
}

fn rd_f64(img: &[u8], at: usize) -> f64 {
    let mut b = [0u8; 8];
    b.copy_from_slice(&img[at..at + 8]);
    f64::from_le_bytes(b)
}

/// Strict decoder; see the module documentation.  Never panics.  All declared lengths are
/// validated against the image size before anything is allocated: allocations are bounded by
/// `8 * 2^lg_k` bytes for the matrix (see `DecodeOptions::max_lg_k`) plus at most about 20 times
/// the image size for the decoded pair list and window.
pub fn decode(img: &[u8]) -> Result<(CpcImage, Fields), String> {
    decode_with(img, &DecodeOptions::default())
}

/// Knobs for `decode_with`; `DecodeOptions::default()` is what `decode` uses.
#[derive(Clone, Copy, Debug)]
pub struct DecodeOptions {
    /// Refuse (`limit:` error) to materialise matrices for `lg_k > max_lg_k`: a Sparse image of
    /// a few bytes can legitimately declare lg_k = 26, i.e. a 512 MiB matrix.  All format checks
    /// that do not need the matrix are still made first.  Default 26.
    pub max_lg_k: u8,
    /// Check that each stream ends exactly where a writer would end it: the declared word count
    /// equals ceil((data bits + padding bits) / 32) and all bits after the data are zero.
    /// The Java/C++/Rust readers never look at those bits, so with `false` this decoder accepts
    /// what they accept there (it still fails if the data runs past the declared stream).
    /// Default true.
    pub strict_padding: bool,
}

impl Default for DecodeOptions {
    fn default() -> Self {
        DecodeOptions { max_lg_k: MAX_LG_K, strict_padding: true }
    }
}

/// `decode` with `max_lg_k` lowered (see `DecodeOptions::max_lg_k`).
pub fn decode_with_max_lg_k(img: &[u8], max_lg_k: u8) -> Result<(CpcImage, Fields), String> {
    decode_with(img, &DecodeOptions { max_lg_k, ..DecodeOptions::default() })
}

/// `decode` with explicit options.
pub fn decode_with(img: &[u8], opts: &DecodeOptions) -> Result<(CpcImage, Fields), String> {
    let max_lg_k = opts.max_lg_k;
    if img.len() < 8 {
        return Err(format!("length: image has {} bytes, the fixed preamble needs 8", img.len()));
    }
    let mut fields: Fields = vec![
        (0, 1, "preamble_ints"),
        (1, 1, "serial_version"),
        (2, 1, "family_id"),
        (3, 1, "lg_k"),
        (4, 1, "first_interesting_column"),
        (5, 1, "flags"),
        (6, 2, "seed_hash"),
    ];
    let preamble_ints = img[0];
    let serial_version = img[1];
    let family_id = img[2];
    let lg_k = img[3];
    let fic = img[4];
    let flags = img[5];
    let seed_hash = u16::from_le_bytes([img[6], img[7]]);

    if serial_version != SERIAL_VERSION {
        return Err(format!("preamble: serial version {serial_version}, expected {SERIAL_VERSION}"));
    }
    if family_id != FAMILY_ID {
        return Err(format!("preamble: family id {family_id}, expected {FAMILY_ID} (CPC)"));
    }
    if !(MIN_LG_K..=MAX_LG_K).contains(&lg_k) {
        return Err(format!("preamble: lg_k {lg_k} outside {MIN_LG_K}..={MAX_LG_K}"));
    }
    if fic > 63 {
        return Err(format!("preamble: first interesting column {fic} > 63"));
    }
    if flags & FLAG_COMPRESSED == 0 {
        return Err(format!("preamble: flags {flags:#04x}: COMPRESSED bit not set"));
    }
    if flags & FLAG_RESERVED_MASK != 0 {
        return Err(format!("preamble: flags {flags:#04x}: reserved bits set"));
    }
    let has_hip = flags & FLAG_HAS_HIP != 0;
    let has_table = flags & FLAG_HAS_TABLE != 0;
    let has_window = flags & FLAG_HAS_WINDOW != 0;
    let expect_pre = preamble_ints_for(has_hip, has_table, has_window);
    if preamble_ints != expect_pre {
        return Err(format!(
            "preamble: preamble ints {preamble_ints}, but flags {flags:#04x} imply {expect_pre}"
        ));
    }
    let pre_bytes = 4 * preamble_ints as usize;
    if img.len() < pre_bytes {
        return Err(format!(
            "length: image has {} bytes, the preamble alone needs {pre_bytes}",
            img.len()
        ));
    }
    let k = 1u64 << lg_k;

    // ---- empty sketch ----
    if !has_table && !has_window {
        if img.len() != 8 {
            return Err(format!("length: empty image has {} bytes, expected 8", img.len()));
        }
        if fic != 0 {
            return Err(format!("semantic: empty image with first interesting column {fic}"));
        }
        if lg_k > max_lg_k {
            return Err(format!("limit: lg_k {lg_k} > configured maximum {max_lg_k}"));
        }
        let image = CpcImage {
            lg_k,
            seed_hash,
            first_interesting_column: fic,
            num_coupons: 0,
            has_hip,
            kxp: if has_hip { k as f64 } else { 0.0 },
            hip_accum: 0.0,
            flags,
            preamble_ints,
            window_offset: 0,
            matrix: vec![0u64; k as usize],
        };
        return Ok((image, fields));
    }

    // ---- variable part of the preamble ----
    let mut at = 8usize;
    let mut take = |len: usize, name: &'static str, fields: &mut Fields| {
        let o = at;
        fields.push((o, len, name));
        at += len;
        o
    };
    let num_coupons = rd_u32(img, take(4, "num_coupons", &mut fields));
    let mut num_pairs = num_coupons; // when there is no window every coupon is a pair
    let mut kxp = 0.0;
    let mut hip_accum = 0.0;
    let mut table_words = 0u32;
    let mut window_words = 0u32;
    if has_table && has_window {
        num_pairs = rd_u32(img, take(4, "num_pairs", &mut fields));
        if has_hip {
            kxp = rd_f64(img, take(8, "kxp", &mut fields));
            hip_accum = rd_f64(img, take(8, "hip_accum", &mut fields));
        }
    }
    if has_table {
        table_words = rd_u32(img, take(4, "table_words", &mut fields));
    }
    if has_window {
        window_words = rd_u32(img, take(4, "window_words", &mut fields));
    }
    if has_hip && !(has_table && has_window) {
        kxp = rd_f64(img, take(8, "kxp", &mut fields));
        hip_accum = rd_f64(img, take(8, "hip_accum", &mut fields));
    }
    debug_assert_eq!(at, pre_bytes);

    // ---- total length (before anything is allocated) ----
    let expect_len = pre_bytes as u64 + 4 * (table_words as u64 + window_words as u64);
    if img.len() as u64 != expect_len {
        return Err(format!(
            "length: image has {} bytes, but preamble ({pre_bytes}) + window ({window_words} words) + table ({table_words} words) = {expect_len}",
            img.len()
        ));
    }
    let window_at = pre_bytes;
    let table_at = pre_bytes + 4 * window_words as usize;
    if has_window {
        fields.push((window_at, 4 * window_words as usize, "window_stream"));
    }
    if has_table {
        fields.push((table_at, 4 * table_words as usize, "table_stream"));
    }
    let window_stream = &img[window_at..table_at];
    let table_stream = &img[table_at..];

    // ---- flavor versus flags ----
    if num_coupons == 0 {
        return Err("flavor: num_coupons = 0 but a table or window is flagged".to_string());
    }
    if num_coupons as u64 > 64 * k {
        return Err(format!("semantic: num_coupons {num_coupons} > 64 k = {}", 64 * k));
    }
    let flavor = flavor_of(lg_k, num_coupons);
    let offset = window_offset_of(lg_k, num_coupons);
    match flavor {
        Flavor::Empty => unreachable!(),
        Flavor::Sparse | Flavor::Hybrid => {
            if has_window || !has_table {
                return Err(format!(
                    "flavor: {flavor:?} (lg_k {lg_k}, C {num_coupons}) needs table and no window, flags {flags:#04x}"
                ));
            }
        }
        Flavor::Pinned | Flavor::Sliding => {
            if !has_window {
                return Err(format!(
                    "flavor: {flavor:?} (lg_k {lg_k}, C {num_coupons}) needs a window, flags {flags:#04x}"
                ));
            }
            if has_table && num_pairs == 0 {
                return Err("flavor: table flagged with num_pairs = 0".to_string());
            }
        }
    }
    if offset > 56 {
        return Err(format!("limit: window offset {offset} > 56 (C {num_coupons}, lg_k {lg_k})"));
    }
    if has_table && num_pairs as u64 > 64 * k {
        return Err(format!("semantic: num_pairs {num_pairs} > 64 k = {}", 64 * k));
    }
    if lg_k > max_lg_k {
        return Err(format!("limit: lg_k {lg_k} > configured maximum {max_lg_k}"));
    }

    // ---- streams ----
    let strict = opts.strict_padding;
    let window =
        if has_window { read_window(window_stream, lg_k, num_coupons, strict)? } else { Vec::new() };
    let max_col = if has_window { 56 } else { 64 };
    let pairs = if has_table {
        read_pairs(table_stream, lg_k, num_pairs, max_col, strict)?
    } else {
        Vec::new()
    };

    // ---- the matrix ----
    let default_row = (1u64 << offset) - 1; // early zone all ones (offset = 0 unless Sliding)
    let mut matrix = vec![default_row; k as usize];
    for (row, &byte) in window.iter().enumerate() {
        matrix[row] |= (byte as u64) << offset;
    }
    match flavor {
        Flavor::Empty => unreachable!(),
        Flavor::Sparse | Flavor::Hybrid => {
            for &(row, col) in &pairs {
                matrix[row as usize] |= 1u64 << col;
            }
        }
        Flavor::Pinned => {
            for &(row, col) in &pairs {
                matrix[row as usize] |= 1u64 << (col + 8);
            }
        }
        Flavor::Sliding => {
            let inverse = &COLUMN_PERMUTATIONS_FOR_DECODING[pseudo_phase_of(lg_k, num_coupons)];
            for &(row, code) in &pairs {
                let col = (inverse[code as usize] + offset + 8) & 63;
                // late zone: 0 -> 1; early zone: 1 -> 0
                matrix[row as usize] ^= 1u64 << col;
            }
        }
    }

    // ---- consistency of the header with the decoded matrix ----
    let bits: u64 = matrix.iter().map(|r| r.count_ones() as u64).sum();
    if bits != num_coupons as u64 {
        return Err(format!(
            "semantic: num_coupons {num_coupons} but the decoded matrix has {bits} bits set"
        ));
    }
    let max_fic = canonical_fic(&matrix, offset);
    if fic > max_fic {
        return Err(format!(
            "semantic: first interesting column {fic}, but at most {max_fic} is consistent with the matrix and offset {offset}"
        ));
    }

    let image = CpcImage {
        lg_k,
        seed_hash,
        first_interesting_column: fic,
        num_coupons,
        has_hip,
        kxp,
        hip_accum,
        flags,
        preamble_ints,
        window_offset: offset,
        matrix,
    };
    Ok((image, fields))
}

/// The first interesting column a writer computes when it rebuilds a sketch from its matrix
/// (window move, union result): the lowest column holding a surprising value, capped by the
/// window offset.  A live sketch may carry a smaller (stale) value, never a larger one.
pub fn canonical_fic(matrix: &[u64], offset: u8) -> u8 {
    let early = (1u64 << offset) - 1;
    let window = 0xffu64 << offset;
    let mut ored = 0u64;
    for &row in matrix {
        ored |= (row & !window) ^ early;
    }
    (ored.trailing_zeros() as u8).min(offset)
}

// ------------------------------------------------------------------------------------------
// encode
// ------------------------------------------------------------------------------------------

/// Writes the image a Java/C++ writer would write for `im.matrix`.
///
/// Uses `lg_k`, `seed_hash`, `has_hip`/`kxp`/`hip_accum` and `matrix`; derives `num_coupons`,
/// flavor, window offset, first interesting column, flags and preamble ints itself (the
/// corresponding fields of `im` are ignored).  Panics only if `im` is not a well-formed input
/// (see `try_encode`).
pub fn encode(im: &CpcImage) -> Vec<u8> {
    try_encode(im, None).expect("cpc spec encode")
}

/// As `encode`, with an explicit first-interesting-column byte (`None` = canonical value).
/// Errors: lg_k out of range, matrix length != 2^lg_k, window offset > 56, or an explicit
/// first interesting column that is inconsistent with the matrix.
pub fn try_encode(im: &CpcImage, fic: Option<u8>) -> Result<Vec<u8>, String> {
    let lg_k = im.lg_k;
    if !(MIN_LG_K..=MAX_LG_K).contains(&lg_k) {
        return Err(format!("lg_k {lg_k} outside {MIN_LG_K}..={MAX_LG_K}"));
    }
    let k = 1usize << lg_k;
    if im.matrix.len() != k {
        return Err(format!("matrix has {} rows, expected {k}", im.matrix.len()));
    }
    let bits: u64 = im.matrix.iter().map(|r| r.count_ones() as u64).sum();
    let num_coupons = bits as u32; // <= 64 * 2^26 = 2^32 only if all bits set: excluded below
    if bits > u32::MAX as u64 {
        return Err("matrix has 2^32 bits set".to_string());
    }
    let flavor = flavor_of(lg_k, num_coupons);
    let offset = window_offset_of(lg_k, num_coupons);
    if offset > 56 {
        return Err(format!("window offset {offset} > 56"));
    }
    let canonical = canonical_fic(&im.matrix, offset);
    let fic = match fic {
        None => canonical,
        Some(f) if f <= canonical => f,
        Some(f) => return Err(format!("first interesting column {f} > {canonical}")),
    };
    let fic = if flavor == Flavor::Empty { 0 } else { fic };

    // window and pairs
    let mut window: Vec<u8> = Vec::new();
    let mut pairs: Vec<(u32, u8)> = Vec::new();
    match flavor {
        Flavor::Empty => {}
        Flavor::Sparse | Flavor::Hybrid => {
            for (row, &bits) in im.matrix.iter().enumerate() {
                let mut m = bits;
                while m != 0 {
                    let col = m.trailing_zeros();
                    m &= m - 1;
                    pairs.push((row as u32, col as u8));
                }
            }
        }
        Flavor::Pinned | Flavor::Sliding => {
            // the permutation is selected by the true phase; only the Sliding flavor uses it
            let perm = if flavor == Flavor::Sliding {
                Some(&COLUMN_PERMUTATIONS_FOR_ENCODING[pseudo_phase_of(lg_k, num_coupons)])
            } else {
                None
            };
            let early = (1u64 << offset) - 1;
            let wmask = 0xffu64 << offset;
            window.reserve(k);
            for (row, &bits) in im.matrix.iter().enumerate() {
                window.push(((bits >> offset) & 0xff) as u8);
                let mut m = (bits & !wmask) ^ early; // surprising ones and surprising zeros
                let start = pairs.len();
                while m != 0 {
                    let col = m.trailing_zeros() as u8;
                    m &= m - 1;
                    let code = match perm {
                        None => col - 8, // Pinned: offset = 0, so col >= 8 here
                        Some(perm) => perm[((col + 56 - offset) & 63) as usize],
                    };
                    pairs.push((row as u32, code));
                }
                pairs[start..].sort_unstable();
            }
        }
    }

    let has_hip = im.has_hip;
    let has_table = !pairs.is_empty();
    let has_window = !window.is_empty();
    let window_stream = if has_window { write_window(&window, lg_k, num_coupons) } else { Vec::new() };
    let table_stream = if has_table { write_pairs(&pairs, lg_k) } else { Vec::new() };

    let flags = FLAG_COMPRESSED
        | if has_hip { FLAG_HAS_HIP } else { 0 }
        | if has_table { FLAG_HAS_TABLE } else { 0 }
        | if has_window { FLAG_HAS_WINDOW } else { 0 };
    let mut out = Vec::with_capacity(40 + window_stream.len() + table_stream.len());
    out.push(preamble_ints_for(has_hip, has_table, has_window));
    out.push(SERIAL_VERSION);
    out.push(FAMILY_ID);
    out.push(lg_k);
    out.push(fic);
    out.push(flags);
    out.extend_from_slice(&im.seed_hash.to_le_bytes());
    if flavor != Flavor::Empty {
        let hip = |out: &mut Vec<u8>| {
            out.extend_from_slice(&im.kxp.to_le_bytes());
            out.extend_from_slice(&im.hip_accum.to_le_bytes());
        };
        out.extend_from_slice(&num_coupons.to_le_bytes());
        if has_table && has_window {
            out.extend_from_slice(&(pairs.len() as u32).to_le_bytes());
            if has_hip {
                hip(&mut out);
            }
        }
        if has_table {
            out.extend_from_slice(&((table_stream.len() / 4) as u32).to_le_bytes());
        }
        if has_window {
            out.extend_from_slice(&((window_stream.len() / 4) as u32).to_le_bytes());
        }
        if has_hip && !(has_table && has_window) {
            hip(&mut out);
        }
        out.extend_from_slice(&window_stream);
        out.extend_from_slice(&table_stream);
    }
    Ok(out)
}

// ------------------------------------------------------------------------------------------
// Start-up self checks of the copied tables (independent of the library)
// ------------------------------------------------------------------------------------------

/// Checks one encoding table (entry = length << 12 | code word, emitted LSB first) and its
/// 4096-entry decoding table (entry = length << 8 | symbol, indexed by the next 12 stream bits).
fn check_code(name: &str, enc: &[u16], dec: &[u16; 4096], checks: &mut u32) -> Result<(), String> {
    // 1. lengths in 1..=12, code word fits in its length
    for (sym, &e) in enc.iter().enumerate() {
        let len = (e >> 12) as u32;
        let code = (e & 0xfff) as u32;
        if !(1..=12).contains(&len) {
            return Err(format!("{name}: symbol {sym} has code length {len}"));
        }
        if code >> len != 0 {
            return Err(format!("{name}: symbol {sym} code word {code:#x} wider than {len} bits"));
        }
    }
    *checks += 1;
    // 2. Kraft sum exactly 1 (in units of 2^-12)
    let kraft: u32 = enc.iter().map(|&e| 1u32 << (12 - (e >> 12) as u32)).sum();
    if kraft != 4096 {
        return Err(format!("{name}: Kraft sum is {kraft}/4096"));
    }
    *checks += 1;
    // 3. prefix-free and complete: the 12-bit extensions of the code words tile 0..4096
    //    exactly once; this builds the inverse table from the definition
    let mut inverse = [u16::MAX; 4096];
    for (sym, &e) in enc.iter().enumerate() {
        let len = (e >> 12) as u32;
        let code = (e & 0xfff) as u32;
        for garbage in 0..(1u32 << (12 - len)) {
            let idx = (code | (garbage << len)) as usize;
            if inverse[idx] != u16::MAX {
                return Err(format!(
                    "{name}: code words of symbols {} and {sym} are not prefix-free",
                    inverse[idx] & 0xff
                ));
            }
            inverse[idx] = ((len as u16) << 8) | sym as u16;
        }
    }
    if inverse.contains(&u16::MAX) {
        return Err(format!("{name}: code is not complete"));
    }
    *checks += 1;
    // 4. the shipped decoding table is exactly that inverse
    if let Some(i) = (0..4096).find(|&i| inverse[i] != dec[i]) {
        return Err(format!(
            "{name}: decoding table entry {i} is {:#x}, inverse of the encoding table is {:#x}",
            dec[i], inverse[i]
        ));
    }
    *checks += 1;
    Ok(())
}

/// Consistency checks of the copied constant tables; returns the number of checks made.
pub fn self_check() -> Result<u32, String> {
    let mut checks = 0u32;
    check_code(
        "length-limited unary code",
        &LENGTH_LIMITED_UNARY_ENCODING_TABLE65,
        &LENGTH_LIMITED_UNARY_DECODING_TABLE65,
        &mut checks,
    )?;
    // the unary-like code must be monotone: a larger delta never has a shorter code
    for w in LENGTH_LIMITED_UNARY_ENCODING_TABLE65.windows(2) {
        if (w[1] >> 12) < (w[0] >> 12) {
            return Err("length-limited unary code: lengths are not monotone".to_string());
        }
    }
    checks += 1;
    for t in 0..22 {
        check_code(
            &format!("byte code {t}"),
            &ENCODING_TABLES_FOR_HIGH_ENTROPY_BYTE[t],
            &DECODING_TABLES_FOR_HIGH_ENTROPY_BYTE[t],
            &mut checks,
        )?;
    }
    for p in 0..16 {
        let fwd = &COLUMN_PERMUTATIONS_FOR_ENCODING[p];
        let inv = &COLUMN_PERMUTATIONS_FOR_DECODING[p];
        let mut seen = [false; 56];
        for &v in fwd.iter() {
            if v >= 56 || seen[v as usize] {
                return Err(format!("column permutation {p} is not a permutation of 0..56"));
            }
            seen[v as usize] = true;
        }
        checks += 1;
        for i in 0..56usize {
            if inv[i] >= 56 || fwd[inv[i] as usize] as usize != i || inv[fwd[i] as usize] as usize != i {
                return Err(format!("column permutation {p}: decoding table is not the inverse"));
            }
        }
        checks += 1;
    }
    // a tiny end-to-end sanity check of the bit-stream primitives
    let mut wr = BitWriter::new();
    wr.put(0b101, 3);
    wr.put_unary(37);
    wr.put(0xabc, 12);
    let bytes = wr.finish(11);
    let mut rd = BitReader::new(&bytes);
    let ok = rd.bits(3, "t").ok() == Some(0b101)
        && rd.unary(100, "t").ok() == Some(37)
        && rd.bits(12, "t").ok() == Some(0xabc)
        && rd.finish(11, "t").is_ok();
    if !ok {
        return Err("bit stream primitives are broken".to_string());
    }
    checks += 1;
    Ok(checks)
}
