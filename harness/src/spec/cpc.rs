//! CPC compressed images — placeholder until the independent FM85 codec is integrated.
use super::Fields;

pub const AVAILABLE: bool = false;

#[derive(Clone, Debug, PartialEq)]
pub struct CpcImage {
    pub lg_k: u8,
    pub seed_hash: u16,
    pub first_interesting_column: u8,
    pub num_coupons: u32,
    pub has_hip: bool,
    pub kxp: f64,
    pub hip_accum: f64,
    pub flags: u8,
    pub preamble_ints: u8,
    pub window_offset: u8,
    pub matrix: Vec<u64>,
}

pub fn decode(_img: &[u8]) -> Result<(CpcImage, Fields), String> {
    Err("CPC spec codec not integrated".into())
}
pub fn encode(_im: &CpcImage) -> Vec<u8> {
    vec![]
}
pub fn self_check() -> Result<u32, String> {
    Ok(0)
}
