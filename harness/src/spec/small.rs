//! Bloom filter, Count-Min and Frequent Items images (small, complete).
//!
//! Bloom    : [0] preLongs (3 empty, 4) [1] serVer 1 [2] family 21 [3] flags (4 EMPTY) [4..6] numHashes u16 [6..8] unused
//!            seed u64 @8, numLongs i32 @16 (bit array length in 64-bit words), unused u32 @20,
//!            non-empty: numBitsSet u64 @24 (all ones = "dirty", to be recounted), words @32
//! Count-Min: [0] preLongs 2 [1] serVer 1 [2] family 18 [3] flags (1 EMPTY) [4..8] unused, numBuckets u32 @8,
//!            numHashes u8 @12, seedHash u16 @13, unused u8 @15; non-empty: total weight (8 bytes, the counter type widened)
//!            @16, then numHashes * numBuckets counters of 8 bytes, row-major
//! Frequent : [0] preLongs (1 empty, 4) [1] serVer 1 [2] family 10 [3] lgMaxMapSize [4] lgCurMapSize [5] flags (EMPTY: bit 2,
//!            older C++ bit 0) [6..8] unused; non-empty: activeItems u32 @8, unused u32 @12, streamWeight u64 @16,
//!            offset u64 @24, activeItems counts u64, then the items (i64/u64: 8 bytes LE; String: u32 length + UTF-8)

use super::{Fields, Rd, Wr};

#[derive(Clone, Debug, PartialEq)]
pub struct BloomImage {
    pub num_hashes: u16,
    pub seed: u64,
    pub empty: bool,
    pub num_bits_set: u64,
    pub words: Vec<u64>,
}

pub fn decode_bloom(img: &[u8]) -> Result<(BloomImage, Fields), String> {
    let mut r = Rd::new(img);
    let pre = r.u8("preamble_longs")?;
    let ver = r.u8("serial_version")?;
    let fam = r.u8("family")?;
    let flags = r.u8("flags")?;
    let num_hashes = r.u16le("num_hashes")?;
    let unused = r.u16le("unused")?;
    let seed = r.u64le("seed")?;
    let num_longs = r.u32le("num_longs")? as i32;
    let unused2 = r.u32le("unused32")?;
    if ver != 1 || fam != 21 {
        return Err(format!("serial version {} family {}", ver, fam));
    }
    if flags & !4 != 0 || unused != 0 || unused2 != 0 {
        return Err(format!("unexpected flag/unused bits: flags {:02x} unused {} {}", flags, unused, unused2));
    }
    let empty = flags & 4 != 0;
    if pre != if empty { 3 } else { 4 } {
        return Err(format!("preamble longs {} with empty = {}", pre, empty));
    }
    if num_hashes == 0 || num_longs <= 0 {
        return Err(format!("num_hashes {} num_longs {}", num_hashes, num_longs));
    }
    let mut im = BloomImage { num_hashes, seed, empty, num_bits_set: 0, words: vec![0; 0] };
    if empty {
        im.words = vec![];
        r.expect_end()?;
        return Ok((im, r.fields));
    }
    im.num_bits_set = r.u64le("num_bits_set")?;
    if (num_longs as usize).checked_mul(8) != Some(r.remaining()) {
        return Err(format!("{} words do not fit {} bytes", num_longs, r.remaining()));
    }
    for _ in 0..num_longs {
        im.words.push(r.u64le("word")?);
    }
    r.expect_end()?;
    Ok((im, r.fields))
}

/// `dirty`: write all-ones in numBitsSet (Java/C++ do so when the count is stale)
pub fn encode_bloom(num_hashes: u16, seed: u64, words: &[u64], dirty: bool, empty_form: bool) -> Vec<u8> {
    let mut w = Wr::new();
    let pop: u64 = words.iter().map(|x| x.count_ones() as u64).sum();
    let empty = pop == 0 && empty_form;
    w.u8(if empty { 3 } else { 4 });
    w.u8(1);
    w.u8(21);
    w.u8(if empty { 4 } else { 0 });
    w.u16le(num_hashes);
    w.u16le(0);
    w.u64le(seed);
    w.u32le(words.len() as u32);
    w.u32le(0);
    if !empty {
        w.u64le(if dirty { u64::MAX } else { pop });
        for &x in words {
            w.u64le(x);
        }
    }
    w.b
}

#[derive(Clone, Debug, PartialEq)]
pub struct CmImage {
    pub num_buckets: u32,
    pub num_hashes: u8,
    pub seed_hash: u16,
    pub empty: bool,
    /// raw 8-byte little-endian values (interpretation depends on the counter type)
    pub total: [u8; 8],
    pub counts: Vec<[u8; 8]>,
}

pub fn decode_cm(img: &[u8]) -> Result<(CmImage, Fields), String> {
    let mut r = Rd::new(img);
    let pre = r.u8("preamble_longs")?;
    let ver = r.u8("serial_version")?;
    let fam = r.u8("family")?;
    let flags = r.u8("flags")?;
    let unused = r.u32le("unused32")?;
    let num_buckets = r.u32le("num_buckets")?;
    let num_hashes = r.u8("num_hashes")?;
    let seed_hash = r.u16le("seed_hash")?;
    let unused8 = r.u8("unused8")?;
    if pre != 2 || ver != 1 || fam != 18 {
        return Err(format!("preamble longs {} serial version {} family {}", pre, ver, fam));
    }
    if flags & !1 != 0 || unused != 0 || unused8 != 0 {
        return Err(format!("unexpected flag/unused bits: flags {:02x} unused {} {}", flags, unused, unused8));
    }
    if num_hashes == 0 || num_buckets < 3 {
        return Err(format!("num_hashes {} num_buckets {}", num_hashes, num_buckets));
    }
    let empty = flags & 1 != 0;
    let mut im = CmImage { num_buckets, num_hashes, seed_hash, empty, total: [0; 8], counts: vec![] };
    if empty {
        r.expect_end()?;
        return Ok((im, r.fields));
    }
    im.total = r.bytes(8, "total_weight")?.try_into().unwrap();
    let n = num_buckets as usize * num_hashes as usize;
    if n.checked_mul(8) != Some(r.remaining()) {
        return Err(format!("{} counters do not fit {} bytes", n, r.remaining()));
    }
    for _ in 0..n {
        im.counts.push(r.bytes(8, "counter")?.try_into().unwrap());
    }
    r.expect_end()?;
    Ok((im, r.fields))
}

pub fn encode_cm(num_buckets: u32, num_hashes: u8, seed_hash: u16, total: i128, counts: &[i128]) -> Vec<u8> {
    let mut w = Wr::new();
    let empty = total == 0;
    w.u8(2);
    w.u8(1);
    w.u8(18);
    w.u8(if empty { 1 } else { 0 });
    w.u32le(0);
    w.u32le(num_buckets);
    w.u8(num_hashes);
    w.u16le(seed_hash);
    w.u8(0);
    if !empty {
        w.u64le(total as u64);
        for &c in counts {
            w.u64le(c as u64);
        }
    }
    w.b
}

#[derive(Clone, Debug, PartialEq)]
pub enum FiItems {
    Longs(Vec<u64>),
    Strings(Vec<Vec<u8>>),
}

#[derive(Clone, Debug, PartialEq)]
pub struct FiImage {
    pub lg_max: u8,
    pub lg_cur: u8,
    pub empty: bool,
    pub stream_weight: u64,
    pub offset: u64,
    pub counts: Vec<u64>,
    pub items: FiItems,
}

pub fn decode_fi(img: &[u8], strings: bool) -> Result<(FiImage, Fields), String> {
    let mut r = Rd::new(img);
    let pre = r.u8("preamble_longs")?;
    let ver = r.u8("serial_version")?;
    let fam = r.u8("family")?;
    let lg_max = r.u8("lg_max_map_size")?;
    let lg_cur = r.u8("lg_cur_map_size")?;
    let flags = r.u8("flags")?;
    let unused = r.u16le("unused")?;
    if ver != 1 || fam != 10 {
        return Err(format!("serial version {} family {}", ver, fam));
    }
    if flags & !5 != 0 || unused != 0 {
        return Err(format!("unexpected flag/unused bits: flags {:02x} unused {}", flags, unused));
    }
    if lg_cur > lg_max || lg_max > 31 || lg_cur < 3 {
        return Err(format!("lg_max {} lg_cur {}", lg_max, lg_cur));
    }
    let empty = flags & 5 != 0;
    let mut im = FiImage { lg_max, lg_cur, empty, stream_weight: 0, offset: 0, counts: vec![], items: if strings { FiItems::Strings(vec![]) } else { FiItems::Longs(vec![]) } };
    if empty {
        if pre != 1 {
            return Err(format!("empty image with preamble longs {}", pre));
        }
        r.expect_end()?;
        return Ok((im, r.fields));
    }
    if pre != 4 {
        return Err(format!("non-empty image with preamble longs {}", pre));
    }
    let n = r.u32le("active_items")? as usize;
    let unused32 = r.u32le("unused32")?;
    if unused32 != 0 {
        return Err("unused field not zero".into());
    }
    im.stream_weight = r.u64le("stream_weight")?;
    im.offset = r.u64le("offset")?;
    if n.checked_mul(8).map(|b| b > r.remaining()).unwrap_or(true) {
        return Err(format!("{} counts do not fit {} bytes", n, r.remaining()));
    }
    for _ in 0..n {
        im.counts.push(r.u64le("count")?);
    }
    if strings {
        let mut v = vec![];
        for _ in 0..n {
            let len = r.u32le("string_length")? as usize;
            if len > r.remaining() {
                return Err(format!("string of {} bytes does not fit", len));
            }
            v.push(r.bytes(len, "string_bytes")?.to_vec());
        }
        im.items = FiItems::Strings(v);
    } else {
        let mut v = vec![];
        for _ in 0..n {
            v.push(r.u64le("item")?);
        }
        im.items = FiItems::Longs(v);
    }
    r.expect_end()?;
    Ok((im, r.fields))
}

/// `empty_flag`: which bit a writer uses for EMPTY (Java 4, old C++ 1, this crate 5)
pub fn encode_fi(im: &FiImage, empty_flag: u8) -> Vec<u8> {
    let mut w = Wr::new();
    let empty = im.counts.is_empty() && im.stream_weight == 0;
    w.u8(if empty { 1 } else { 4 });
    w.u8(1);
    w.u8(10);
    w.u8(im.lg_max);
    w.u8(im.lg_cur);
    w.u8(if empty { empty_flag } else { 0 });
    w.u16le(0);
    if empty {
        return w.b;
    }
    w.u32le(im.counts.len() as u32);
    w.u32le(0);
    w.u64le(im.stream_weight);
    w.u64le(im.offset);
    for &c in &im.counts {
        w.u64le(c);
    }
    match &im.items {
        FiItems::Longs(v) => {
            for &x in v {
                w.u64le(x);
            }
        }
        FiItems::Strings(v) => {
            for s in v {
                w.u32le(s.len() as u32);
                w.bytes(s);
            }
        }
    }
    w.b
}
