//! Independent encoders / decoders of the DataSketches binary layouts, written from the published
//! Java/C++ format descriptions (preamble tables), not from the crate under test. Every decoder also
//! returns a field map `[(offset, len, name)]` for the structure-aware mutator of C14.

pub mod cpc;
pub mod cpc_tables;
pub mod hll;
pub mod small;
pub mod tdigest;
pub mod theta;

pub type Fields = Vec<(usize, usize, &'static str)>;

pub struct Rd<'a> {
    pub b: &'a [u8],
    pub p: usize,
    pub fields: Fields,
}

impl<'a> Rd<'a> {
    pub fn new(b: &'a [u8]) -> Rd<'a> {
        Rd { b, p: 0, fields: vec![] }
    }
    fn take(&mut self, n: usize, name: &'static str) -> Result<&'a [u8], String> {
        if self.p + n > self.b.len() {
            return Err(format!("image too short reading {} at offset {} (len {})", name, self.p, self.b.len()));
        }
        let s = &self.b[self.p..self.p + n];
        self.fields.push((self.p, n, name));
        self.p += n;
        Ok(s)
    }
    pub fn u8(&mut self, name: &'static str) -> Result<u8, String> {
        Ok(self.take(1, name)?[0])
    }
    pub fn u16le(&mut self, name: &'static str) -> Result<u16, String> {
        Ok(u16::from_le_bytes(self.take(2, name)?.try_into().unwrap()))
    }
    pub fn u16be(&mut self, name: &'static str) -> Result<u16, String> {
        Ok(u16::from_be_bytes(self.take(2, name)?.try_into().unwrap()))
    }
    pub fn u32le(&mut self, name: &'static str) -> Result<u32, String> {
        Ok(u32::from_le_bytes(self.take(4, name)?.try_into().unwrap()))
    }
    pub fn u32be(&mut self, name: &'static str) -> Result<u32, String> {
        Ok(u32::from_be_bytes(self.take(4, name)?.try_into().unwrap()))
    }
    pub fn u64le(&mut self, name: &'static str) -> Result<u64, String> {
        Ok(u64::from_le_bytes(self.take(8, name)?.try_into().unwrap()))
    }
    pub fn f64le(&mut self, name: &'static str) -> Result<f64, String> {
        Ok(f64::from_bits(self.u64le(name)?))
    }
    pub fn f32le(&mut self, name: &'static str) -> Result<f32, String> {
        Ok(f32::from_bits(self.u32le(name)?))
    }
    pub fn f64be(&mut self, name: &'static str) -> Result<f64, String> {
        Ok(f64::from_bits(u64::from_be_bytes(self.take(8, name)?.try_into().unwrap())))
    }
    pub fn f32be(&mut self, name: &'static str) -> Result<f32, String> {
        Ok(f32::from_bits(u32::from_be_bytes(self.take(4, name)?.try_into().unwrap())))
    }
    pub fn bytes(&mut self, n: usize, name: &'static str) -> Result<&'a [u8], String> {
        self.take(n, name)
    }
    pub fn remaining(&self) -> usize {
        self.b.len() - self.p
    }
    pub fn expect_end(&self) -> Result<(), String> {
        if self.p != self.b.len() {
            return Err(format!("{} trailing bytes after the image", self.b.len() - self.p));
        }
        Ok(())
    }
}

#[derive(Default)]
pub struct Wr {
    pub b: Vec<u8>,
}

impl Wr {
    pub fn new() -> Wr {
        Wr { b: vec![] }
    }
    pub fn u8(&mut self, v: u8) {
        self.b.push(v);
    }
    pub fn u16le(&mut self, v: u16) {
        self.b.extend_from_slice(&v.to_le_bytes());
    }
    pub fn u16be(&mut self, v: u16) {
        self.b.extend_from_slice(&v.to_be_bytes());
    }
    pub fn u32le(&mut self, v: u32) {
        self.b.extend_from_slice(&v.to_le_bytes());
    }
    pub fn u32be(&mut self, v: u32) {
        self.b.extend_from_slice(&v.to_be_bytes());
    }
    pub fn u64le(&mut self, v: u64) {
        self.b.extend_from_slice(&v.to_le_bytes());
    }
    pub fn f64le(&mut self, v: f64) {
        self.b.extend_from_slice(&v.to_bits().to_le_bytes());
    }
    pub fn f32le(&mut self, v: f32) {
        self.b.extend_from_slice(&v.to_bits().to_le_bytes());
    }
    pub fn f64be(&mut self, v: f64) {
        self.b.extend_from_slice(&v.to_bits().to_be_bytes());
    }
    pub fn f32be(&mut self, v: f32) {
        self.b.extend_from_slice(&v.to_bits().to_be_bytes());
    }
    pub fn bytes(&mut self, v: &[u8]) {
        self.b.extend_from_slice(v);
    }
}
