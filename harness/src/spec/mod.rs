// spec codecs
