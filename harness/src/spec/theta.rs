//! Compact theta images, serial versions 1-4 (datasketches-java `PreambleUtil` / datasketches-cpp
//! `compact_theta_sketch` layout).
//!
//! v3: [0] preLongs (1 empty or single item, 2 exact, 3 estimating) [1] 3 [2] family 3 [3] lgNom (0) [4] lgArr (0)
//!     [5] flags (1 big-endian, 2 READ_ONLY, 4 EMPTY, 8 COMPACT, 16 ORDERED, 32 SINGLE_ITEM) [6..8] seedHash u16 LE
//!     pre > 1: curCount u32 @8, p float @12 (Java writes 1.0f, C++ 0); pre > 2: thetaLong u64 @16; entries u64 LE
//! v4: [3] entryBits [4] numEntriesBytes [5] flags [6..8] seedHash; pre == 2: thetaLong @8; then numEntries in
//!     numEntriesBytes LE bytes; then the deltas of the sorted entries, entryBits each, as one MSB-first bit stream
//!     (blocks of 8 values = entryBits bytes, the tail padded to a byte)
//! v1: pre = 3, no flags, no seed hash: curCount u32 @8, thetaLong @16, entries @24
//! v2: seedHash @6; pre 1 = empty (8 bytes); pre 2: curCount @8, entries @16; pre 3: curCount @8, thetaLong @16, entries @24

use super::{Fields, Rd, Wr};

pub const MAX_THETA: u64 = i64::MAX as u64;

#[derive(Clone, Debug, PartialEq)]
pub struct ThetaImage {
    pub ser_ver: u8,
    pub pre_longs: u8,
    pub flags: u8,
    pub empty: bool,
    pub ordered: bool,
    pub seed_hash: u16,
    pub theta: u64,
    /// in image order
    pub entries: Vec<u64>,
}

struct BitReader<'a> {
    b: &'a [u8],
    bit: usize,
}
impl<'a> BitReader<'a> {
    fn read(&mut self, n: u8) -> Option<u64> {
        let mut v = 0u64;
        for _ in 0..n {
            let byte = *self.b.get(self.bit >> 3)?;
            let bit = (byte >> (7 - (self.bit & 7))) & 1;
            v = (v << 1) | bit as u64;
            self.bit += 1;
        }
        Some(v)
    }
}

pub fn decode(img: &[u8]) -> Result<(ThetaImage, Fields), String> {
    let mut r = Rd::new(img);
    let pre = r.u8("preamble_longs")?;
    let ver = r.u8("serial_version")?;
    let fam = r.u8("family")?;
    if fam != 3 {
        return Err(format!("family {} != 3", fam));
    }
    let mut im = ThetaImage { ser_ver: ver, pre_longs: pre, flags: 0, empty: false, ordered: true, seed_hash: 0, theta: MAX_THETA, entries: vec![] };
    match ver {
        1 => {
            if pre != 3 {
                return Err(format!("v1 preamble longs {} != 3", pre));
            }
            r.bytes(5, "unused")?;
            let n = r.u32le("num_entries")? as usize;
            r.u32le("unused32")?;
            im.theta = r.u64le("theta")?;
            if n.checked_mul(8) != Some(r.remaining()) {
                return Err(format!("v1: {} entries do not fit {} bytes", n, r.remaining()));
            }
            for _ in 0..n {
                im.entries.push(r.u64le("entry")?);
            }
            im.empty = n == 0 && im.theta == MAX_THETA;
        }
        2 => {
            r.u8("lg_nom")?;
            r.u8("lg_arr")?;
            im.flags = r.u8("flags")?;
            im.seed_hash = r.u16le("seed_hash")?;
            match pre {
                1 => im.empty = true,
                2 | 3 => {
                    let n = r.u32le("num_entries")? as usize;
                    r.u32le("p_float")?;
                    if pre == 3 {
                        im.theta = r.u64le("theta")?;
                    }
                    if n.checked_mul(8) != Some(r.remaining()) {
                        return Err(format!("v2: {} entries do not fit {} bytes", n, r.remaining()));
                    }
                    for _ in 0..n {
                        im.entries.push(r.u64le("entry")?);
                    }
                    im.empty = n == 0 && im.theta == MAX_THETA;
                }
                _ => return Err(format!("v2 preamble longs {}", pre)),
            }
        }
        3 => {
            let lg_nom = r.u8("lg_nom")?;
            let lg_arr = r.u8("lg_arr")?;
            im.flags = r.u8("flags")?;
            im.seed_hash = r.u16le("seed_hash")?;
            if lg_nom != 0 || lg_arr != 0 {
                return Err(format!("bytes 3..5 of a compact image must be 0, got {} {}", lg_nom, lg_arr));
            }
            if im.flags & !(1 | 2 | 4 | 8 | 16 | 32) != 0 {
                return Err(format!("unknown flag bits {:02x}", im.flags));
            }
            if im.flags & 8 == 0 || im.flags & 2 == 0 {
                return Err(format!("compact images carry READ_ONLY and COMPACT, flags {:02x}", im.flags));
            }
            im.empty = im.flags & 4 != 0;
            im.ordered = im.flags & 16 != 0;
            if im.empty {
                if pre != 1 {
                    return Err(format!("empty image with preamble longs {}", pre));
                }
            } else if pre == 1 {
                im.entries.push(r.u64le("single_entry")?);
                if !im.ordered {
                    return Err("single-item image must be flagged ordered".into());
                }
            } else if pre == 2 || pre == 3 {
                let n = r.u32le("num_entries")? as usize;
                r.u32le("p_float")?;
                if pre == 3 {
                    im.theta = r.u64le("theta")?;
                }
                if n.checked_mul(8) != Some(r.remaining()) {
                    return Err(format!("v3: {} entries do not fit {} bytes", n, r.remaining()));
                }
                for _ in 0..n {
                    im.entries.push(r.u64le("entry")?);
                }
            } else {
                return Err(format!("v3 preamble longs {}", pre));
            }
        }
        4 => {
            let entry_bits = r.u8("entry_bits")?;
            let neb = r.u8("num_entries_bytes")?;
            im.flags = r.u8("flags")?;
            im.seed_hash = r.u16le("seed_hash")?;
            if im.flags & !(1 | 2 | 4 | 8 | 16 | 32) != 0 || im.flags & 8 == 0 || im.flags & 16 == 0 {
                return Err(format!("v4 flags {:02x}: compressed images are compact and ordered", im.flags));
            }
            if pre == 2 {
                im.theta = r.u64le("theta")?;
            } else if pre != 1 {
                return Err(format!("v4 preamble longs {}", pre));
            }
            if neb == 0 || neb > 4 || entry_bits == 0 || entry_bits > 63 {
                return Err(format!("v4 entry_bits {} num_entries_bytes {}", entry_bits, neb));
            }
            let mut n = 0usize;
            for i in 0..neb {
                n |= (r.u8("num_entries_byte")? as usize) << (8 * i);
            }
            let total_bits = n.checked_mul(entry_bits as usize).ok_or("overflow")?;
            let blocks = n / 8;
            let tail = n % 8;
            let want = blocks * entry_bits as usize + (tail * entry_bits as usize).div_ceil(8);
            let _ = total_bits;
            if want != r.remaining() {
                return Err(format!("v4: {} entries of {} bits need {} bytes, {} present", n, entry_bits, want, r.remaining()));
            }
            let data = r.bytes(want, "packed_deltas")?;
            let mut br = BitReader { b: data, bit: 0 };
            let mut prev = 0u64;
            let mut ored = 0u64;
            for _ in 0..n {
                let d = br.read(entry_bits).ok_or("bit stream too short")?;
                ored |= d;
                prev = prev.checked_add(d).ok_or("delta overflow")?;
                im.entries.push(prev);
            }
            if 64 - ored.leading_zeros() > entry_bits as u32 {
                return Err("delta wider than entry_bits".into());
            }
            // the padding bits must be zero
            while br.bit < data.len() * 8 {
                if br.read(1) != Some(0) {
                    return Err("non-zero padding bits".into());
                }
            }
            im.empty = false;
            im.ordered = true;
        }
        v => return Err(format!("serial version {}", v)),
    }
    r.expect_end()?;
    Ok((im, r.fields))
}

/// semantic validity of a decoded image (entries below theta, non-zero, distinct, sorted if ordered, flags coherent)
pub fn check_semantics(im: &ThetaImage) -> Result<(), String> {
    if im.theta == 0 || im.theta > MAX_THETA {
        return Err(format!("theta {} out of range", im.theta));
    }
    let mut s = im.entries.clone();
    s.sort_unstable();
    if s.windows(2).any(|w| w[0] == w[1]) {
        return Err("duplicate entry".into());
    }
    if s.first().map(|&e| e == 0).unwrap_or(false) || s.last().map(|&e| e >= im.theta).unwrap_or(false) {
        return Err("entry is 0 or not below theta".into());
    }
    if im.ordered && im.entries != s {
        return Err("flagged ordered but entries are not ascending".into());
    }
    if im.empty && (!im.entries.is_empty() || im.theta != MAX_THETA) {
        return Err("EMPTY flag with entries or theta < 1".into());
    }
    if im.ser_ver >= 3 {
        let want_pre = if im.ser_ver == 4 {
            if im.theta < MAX_THETA { 2 } else { 1 }
        } else if im.theta < MAX_THETA {
            3
        } else if im.empty || im.entries.len() == 1 {
            1
        } else {
            2
        };
        if im.pre_longs != want_pre {
            return Err(format!("preamble longs {} but state implies {}", im.pre_longs, want_pre));
        }
    }
    Ok(())
}

#[derive(Clone, Copy, Debug, PartialEq)]
pub struct ThetaVariant {
    pub ser_ver: u8,
    /// v3 only: keep the given order and clear ORDERED (else sort and set it)
    pub unordered: bool,
    /// v3 only: write 1.0f in the p field like Java (else 0 like C++)
    pub java_p: bool,
    /// v3 single item: set the SINGLE_ITEM flag like recent Java
    pub single_flag: bool,
}

struct BitWriter {
    b: Vec<u8>,
    bit: usize,
}
impl BitWriter {
    fn write(&mut self, v: u64, n: u8) {
        for i in (0..n).rev() {
            if self.bit & 7 == 0 {
                self.b.push(0);
            }
            if (v >> i) & 1 == 1 {
                let last = self.b.len() - 1;
                self.b[last] |= 1 << (7 - (self.bit & 7));
            }
            self.bit += 1;
        }
    }
}

/// Encode (theta, entries, seed_hash) as the given variant. Precondition: the state is representable
/// in that variant (v4 needs a non-empty entry list; v1/v2 have no single-item or unordered form).
pub fn encode(theta: u64, entries: &[u64], empty: bool, seed_hash: u16, v: ThetaVariant) -> Vec<u8> {
    let mut w = Wr::new();
    let mut sorted = entries.to_vec();
    sorted.sort_unstable();
    let estimating = theta < MAX_THETA;
    match v.ser_ver {
        1 => {
            w.u8(3);
            w.u8(1);
            w.u8(3);
            w.bytes(&[0; 5]);
            w.u32le(sorted.len() as u32);
            w.u32le(0);
            w.u64le(theta);
            for e in sorted {
                w.u64le(e);
            }
        }
        2 => {
            let pre = if empty { 1 } else if estimating { 3 } else { 2 };
            w.u8(pre);
            w.u8(2);
            w.u8(3);
            w.u8(0);
            w.u8(0);
            w.u8(if empty { 4 } else { 0 } | 2 | 8 | 16);
            w.u16le(seed_hash);
            if pre > 1 {
                w.u32le(sorted.len() as u32);
                w.u32le(if v.java_p { 0x3f80_0000 } else { 0 });
                if pre == 3 {
                    w.u64le(theta);
                }
                for e in sorted {
                    w.u64le(e);
                }
            }
        }
        3 => {
            let single = !empty && !estimating && entries.len() == 1;
            let pre = if estimating { 3 } else if empty || single { 1 } else { 2 };
            let ordered = !v.unordered || empty || single;
            w.u8(pre);
            w.u8(3);
            w.u8(3);
            w.u8(0);
            w.u8(0);
            let mut flags = 2 | 8;
            if empty {
                flags |= 4;
            }
            if ordered {
                flags |= 16;
            }
            if single && v.single_flag {
                flags |= 32;
            }
            w.u8(flags);
            w.u16le(seed_hash);
            if pre > 1 {
                w.u32le(entries.len() as u32);
                w.u32le(if v.java_p { 0x3f80_0000 } else { 0 });
            }
            if pre == 3 {
                w.u64le(theta);
            }
            if !empty {
                let list = if ordered { &sorted } else { entries };
                for &e in list.iter() {
                    w.u64le(e);
                }
            }
        }
        _ => {
            let pre = if estimating { 2 } else { 1 };
            let mut prev = 0u64;
            let mut ored = 0u64;
            for &e in &sorted {
                ored |= e - prev;
                prev = e;
            }
            let entry_bits = (64 - ored.leading_zeros()) as u8;
            let n = sorted.len() as u32;
            let neb = ((32 - n.leading_zeros()).div_ceil(8)).max(1) as u8;
            w.u8(pre);
            w.u8(4);
            w.u8(3);
            w.u8(entry_bits);
            w.u8(neb);
            w.u8(2 | 8 | 16);
            w.u16le(seed_hash);
            if estimating {
                w.u64le(theta);
            }
            for i in 0..neb {
                w.u8((n >> (8 * i)) as u8);
            }
            let mut bw = BitWriter { b: vec![], bit: 0 };
            let mut prev = 0u64;
            for &e in &sorted {
                bw.write(e - prev, entry_bits);
                prev = e;
            }
            w.bytes(&bw.b);
        }
    }
    w.b
}
