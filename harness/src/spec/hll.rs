//! HLL images (datasketches-java `PreambleUtil` / datasketches-cpp `HllSketchImpl` layout).
//!
//! [0] preInts (2 LIST, 3 SET, 10 HLL) [1] serVer = 1 [2] family = 7 [3] lgK [4] lgArr
//! [5] flags (4 EMPTY, 8 COMPACT, 16 OUT_OF_ORDER; 1 big-endian, 2 read-only, 32 rebuild: not used here)
//! [6] LIST: coupon count | HLL: curMin | SET: unused     [7] mode: bits0-1 curMode (0 LIST 1 SET 2 HLL), bits2-3 target (0 HLL4 1 HLL6 2 HLL8)
//! LIST: coupons u32 from 8 (compact: count of them; updatable: 1 << lgArr cells, 0 = empty)
//! SET : count u32 @8, coupons from 12 (compact: count; updatable: the 1 << lgArr hash table)
//! HLL : hipAccum f64 @8, kxq0 @16, kxq1 @24, numAtCurMin u32 @32, auxCount u32 @36, registers @40
//!       (HLL4 k/2 bytes, two nibbles per byte, even slot = low nibble; HLL6 3k/4+1 bytes, 6 bits per slot, LSB first;
//!        HLL8 k bytes), then for HLL4 the exceptions: compact -> auxCount pairs (value << 26 | slot);
//!        updatable -> the aux hash table of 1 << lgAuxArrInts ints (lgAuxArrInts in byte 4), 0 = empty.
//! The register array is always stored in full; the COMPACT flag only selects the aux / coupon representation.

use super::{Fields, Rd, Wr};

pub const LG_AUX_ARR_INTS: [u8; 27] = [0, 2, 2, 2, 2, 2, 2, 3, 3, 3, 4, 4, 5, 5, 6, 7, 8, 9, 10, 11, 12, 13, 14, 15, 16, 17, 18];

#[derive(Clone, Debug, PartialEq)]
pub struct HllImage {
    pub lg_k: u8,
    /// 4, 6 or 8
    pub target_bits: u8,
    /// 0 list, 1 set, 2 hll
    pub mode: u8,
    pub lg_arr: u8,
    pub empty_flag: bool,
    pub compact: bool,
    pub ooo: bool,
    /// list / set: the distinct coupons, sorted
    pub coupons: Vec<u32>,
    /// hll: logical registers (exceptions resolved)
    pub regs: Vec<u8>,
    pub cur_min: u8,
    pub num_at_cur_min: u32,
    pub aux: Vec<(u32, u8)>,
    pub hip: f64,
    pub kxq0: f64,
    pub kxq1: f64,
}

impl HllImage {
    pub fn sparse(lg_k: u8, target_bits: u8, mut coupons: Vec<u32>) -> HllImage {
        coupons.sort_unstable();
        coupons.dedup();
        let mode = if coupons.len() < 8 { 0 } else { 1 };
        HllImage {
            lg_k,
            target_bits,
            mode,
            lg_arr: if mode == 0 { 3 } else { 5 },
            empty_flag: coupons.is_empty(),
            compact: true,
            ooo: false,
            coupons,
            regs: vec![],
            cur_min: 0,
            num_at_cur_min: 0,
            aux: vec![],
            hip: 0.0,
            kxq0: 0.0,
            kxq1: 0.0,
        }
    }
    /// an HLL-mode image from logical registers; cached fields computed consistently
    pub fn array(lg_k: u8, target_bits: u8, regs: Vec<u8>, hip: f64, ooo: bool) -> HllImage {
        let (kxq0, kxq1) = crate::model::hll::kxq_of(&regs);
        let cur_min = if target_bits == 4 { *regs.iter().min().unwrap_or(&0) } else { 0 };
        let num_at_cur_min = regs.iter().filter(|&&r| r == cur_min).count() as u32;
        let mut aux = vec![];
        if target_bits == 4 {
            for (s, &r) in regs.iter().enumerate() {
                if r - cur_min >= 15 {
                    aux.push((s as u32, r));
                }
            }
        }
        HllImage {
            lg_k,
            target_bits,
            mode: 2,
            lg_arr: 0,
            empty_flag: false,
            compact: true,
            ooo,
            coupons: vec![],
            regs,
            cur_min,
            num_at_cur_min,
            aux,
            hip,
            kxq0,
            kxq1,
        }
    }
}

fn reg_bytes(lg_k: u8, target_bits: u8) -> usize {
    let k = 1usize << lg_k;
    match target_bits {
        4 => k / 2,
        6 => (k * 3) / 4 + 1,
        _ => k,
    }
}

pub fn decode(img: &[u8]) -> Result<(HllImage, Fields), String> {
    let mut r = Rd::new(img);
    let pre = r.u8("preamble_ints")?;
    let ver = r.u8("serial_version")?;
    let fam = r.u8("family")?;
    let lg_k = r.u8("lg_k")?;
    let lg_arr = r.u8("lg_arr")?;
    let flags = r.u8("flags")?;
    let b6 = r.u8("list_count_or_cur_min")?;
    let mode_byte = r.u8("mode")?;
    if ver != 1 {
        return Err(format!("serial version {} != 1", ver));
    }
    if fam != 7 {
        return Err(format!("family {} != 7", fam));
    }
    if !(4..=21).contains(&lg_k) {
        return Err(format!("lg_k {} out of range", lg_k));
    }
    if mode_byte >> 4 != 0 {
        return Err(format!("unused bits set in mode byte {:02x}", mode_byte));
    }
    let mode = mode_byte & 3;
    let tgt = (mode_byte >> 2) & 3;
    if mode > 2 || tgt > 2 {
        return Err(format!("bad mode byte {:02x}", mode_byte));
    }
    if flags & !(1 | 2 | 4 | 8 | 16 | 32) != 0 {
        return Err(format!("unknown flag bits {:02x}", flags));
    }
    let target_bits = [4u8, 6, 8][tgt as usize];
    let empty_flag = flags & 4 != 0;
    let compact = flags & 8 != 0;
    let ooo = flags & 16 != 0;
    let want_pre = [2u8, 3, 10][mode as usize];
    if pre != want_pre {
        return Err(format!("preamble ints {} but mode {} requires {}", pre, mode, want_pre));
    }
    let mut im = HllImage {
        lg_k,
        target_bits,
        mode,
        lg_arr,
        empty_flag,
        compact,
        ooo,
        coupons: vec![],
        regs: vec![],
        cur_min: 0,
        num_at_cur_min: 0,
        aux: vec![],
        hip: 0.0,
        kxq0: 0.0,
        kxq1: 0.0,
    };
    match mode {
        0 => {
            let count = b6 as usize;
            let cells = if compact { count } else { 1usize << lg_arr.min(30) };
            if !compact && lg_arr > 26 {
                return Err(format!("lg_arr {} too large", lg_arr));
            }
            if empty_flag && count != 0 {
                return Err("EMPTY flag with a non-zero coupon count".into());
            }
            if cells * 4 != r.remaining() {
                return Err(format!("LIST payload is {} bytes, expected {} cells (compact={})", r.remaining(), cells, compact));
            }
            for _ in 0..cells {
                let c = r.u32le("coupon")?;
                if c != 0 {
                    im.coupons.push(c);
                } else if compact {
                    return Err("empty cell in a compact coupon list".into());
                }
            }
            if im.coupons.len() != count {
                return Err(format!("LIST holds {} coupons, count byte says {}", im.coupons.len(), count));
            }
            if (count == 0) != empty_flag {
                return Err(format!("EMPTY flag {} but {} coupons", empty_flag, count));
            }
        }
        1 => {
            let count = r.u32le("set_count")? as usize;
            if !compact && !(2..=26).contains(&lg_arr) {
                return Err(format!("lg_arr {} out of range for an updatable SET", lg_arr));
            }
            let cells = if compact { count } else { 1usize << lg_arr };
            if cells.checked_mul(4) != Some(r.remaining()) {
                return Err(format!("SET payload is {} bytes, expected {} cells (compact={})", r.remaining(), cells, compact));
            }
            for _ in 0..cells {
                let c = r.u32le("coupon")?;
                if c != 0 {
                    im.coupons.push(c);
                } else if compact {
                    return Err("empty cell in a compact coupon set".into());
                }
            }
            if im.coupons.len() != count {
                return Err(format!("SET holds {} coupons, count says {}", im.coupons.len(), count));
            }
            if empty_flag {
                return Err("EMPTY flag on a SET image".into());
            }
        }
        _ => {
            im.cur_min = b6;
            im.hip = r.f64le("hip_accum")?;
            im.kxq0 = r.f64le("kxq0")?;
            im.kxq1 = r.f64le("kxq1")?;
            im.num_at_cur_min = r.u32le("num_at_cur_min")?;
            let aux_count = r.u32le("aux_count")? as usize;
            let k = 1usize << lg_k;
            let nbytes = reg_bytes(lg_k, target_bits);
            let data = r.bytes(nbytes, "registers")?;
            if target_bits != 4 && (aux_count != 0 || b6 != 0) {
                return Err(format!("aux count {} / cur_min {} on a non-HLL4 image", aux_count, b6));
            }
            let mut raw = vec![0u8; k];
            match target_bits {
                4 => {
                    for s in 0..k {
                        let b = data[s >> 1];
                        raw[s] = if s & 1 == 0 { b & 15 } else { b >> 4 };
                    }
                }
                6 => {
                    for s in 0..k {
                        let bit = s * 6;
                        let w = (data[bit >> 3] as u16) | ((data[(bit >> 3) + 1] as u16) << 8);
                        raw[s] = ((w >> (bit & 7)) & 0x3f) as u8;
                    }
                }
                _ => raw.copy_from_slice(data),
            }
            if target_bits == 4 {
                let mask = (k - 1) as u32;
                let mut pairs: Vec<u32> = vec![];
                if compact {
                    if aux_count.checked_mul(4) != Some(r.remaining()) {
                        return Err(format!("compact aux section is {} bytes for {} entries", r.remaining(), aux_count));
                    }
                    for _ in 0..aux_count {
                        pairs.push(r.u32le("aux_pair")?);
                    }
                } else {
                    // updatable: the aux hash table (possibly all empty) of 1 << lgAuxArrInts ints
                    let lg = if lg_arr == 0 { LG_AUX_ARR_INTS[lg_k as usize] } else { lg_arr };
                    if lg > 26 || (4usize << lg) != r.remaining() {
                        return Err(format!("updatable aux table: {} bytes remain, lgAuxArrInts {} needs {}", r.remaining(), lg, 4usize << lg.min(26)));
                    }
                    for _ in 0..(1usize << lg) {
                        let p = r.u32le("aux_cell")?;
                        if p != 0 {
                            pairs.push(p);
                        }
                    }
                    if pairs.len() != aux_count {
                        return Err(format!("aux table holds {} entries, aux count says {}", pairs.len(), aux_count));
                    }
                }
                for p in pairs {
                    im.aux.push((p & 0x3ff_ffff & mask, (p >> 26) as u8));
                }
                im.aux.sort_unstable();
                if im.aux.windows(2).any(|w| w[0].0 == w[1].0) {
                    return Err("duplicate slot in the aux section".into());
                }
                let mut regs = vec![0u8; k];
                let mut tokens = 0;
                for s in 0..k {
                    if raw[s] == 15 {
                        tokens += 1;
                        match im.aux.binary_search_by_key(&(s as u32), |p| p.0) {
                            Ok(i) => regs[s] = im.aux[i].1,
                            Err(_) => return Err(format!("slot {} holds the AUX token but has no aux entry", s)),
                        }
                        if regs[s] < im.cur_min.saturating_add(15) {
                            return Err(format!("aux value {} at slot {} is not an exception for cur_min {}", regs[s], s, im.cur_min));
                        }
                    } else {
                        regs[s] = im.cur_min + raw[s];
                    }
                }
                if tokens != im.aux.len() {
                    return Err(format!("{} AUX tokens but {} aux entries", tokens, im.aux.len()));
                }
                im.regs = regs;
            } else {
                im.regs = raw;
            }
            if empty_flag {
                return Err("EMPTY flag on an HLL-mode image".into());
            }
        }
    }
    r.expect_end()?;
    im.coupons.sort_unstable();
    if im.coupons.windows(2).any(|w| w[0] == w[1]) {
        return Err("duplicate coupon".into());
    }
    Ok((im, r.fields))
}

/// cached fields of an HLL-mode image must agree with its registers
pub fn check_cached(im: &HllImage) -> Result<(), String> {
    if im.mode != 2 {
        return Ok(());
    }
    let n_at = im.regs.iter().filter(|&&r| r == im.cur_min).count() as u32;
    if n_at != im.num_at_cur_min {
        return Err(format!("numAtCurMin {} but {} registers equal curMin {}", im.num_at_cur_min, n_at, im.cur_min));
    }
    if im.target_bits == 4 && im.regs.iter().any(|&r| r < im.cur_min) {
        return Err("register below curMin".into());
    }
    let (k0, k1) = crate::model::hll::kxq_of(&im.regs);
    if !crate::rt::rel_close(im.kxq0, k0, 1e-9) || !(crate::rt::rel_close(im.kxq1, k1, 1e-9) || (im.kxq1 - k1).abs() < 1e-18) {
        return Err(format!("KxQ ({}, {:e}) but registers give ({}, {:e})", im.kxq0, im.kxq1, k0, k1));
    }
    Ok(())
}

fn put_set_cell(table: &mut [u32], lg_arr: u8, c: u32) {
    // the Java / C++ probe rule of the coupon hash set
    let mask = (1u32 << lg_arr) - 1;
    let mut probe = c & mask;
    loop {
        if table[probe as usize] == 0 {
            table[probe as usize] = c;
            return;
        }
        let stride = ((c & 0x3ff_ffff) >> lg_arr) | 1;
        probe = (probe + stride) & mask;
    }
}

fn put_aux_cell(table: &mut [u32], lg: u8, slot: u32, pair: u32) {
    let mask = (1u32 << lg) - 1;
    let mut probe = slot & mask;
    loop {
        if table[probe as usize] == 0 {
            table[probe as usize] = pair;
            return;
        }
        let stride = (slot >> lg) | 1;
        probe = (probe + stride) & mask;
    }
}

/// Write the image the way a Java/C++ writer would: `compact` selects toCompactByteArray / toUpdatableByteArray.
pub fn encode(im: &HllImage, compact: bool) -> Vec<u8> {
    let mut w = Wr::new();
    let tgt = match im.target_bits {
        4 => 0u8,
        6 => 1,
        _ => 2,
    };
    w.u8([2u8, 3, 10][im.mode as usize]);
    w.u8(1);
    w.u8(7);
    w.u8(im.lg_k);
    match im.mode {
        0 => {
            let lg_arr = 3u8;
            w.u8(lg_arr);
            let empty = im.coupons.is_empty();
            w.u8((if empty { 4 } else { 0 }) | (if compact { 8 } else { 0 }));
            w.u8(im.coupons.len() as u8);
            w.u8(tgt << 2);
            if compact {
                for &c in &im.coupons {
                    w.u32le(c);
                }
            } else {
                for i in 0..(1usize << lg_arr) {
                    w.u32le(*im.coupons.get(i).unwrap_or(&0));
                }
            }
        }
        1 => {
            // smallest table that keeps the load below 3/4
            let mut lg_arr = 5u8;
            while (im.coupons.len() * 4) > (3 << lg_arr) {
                lg_arr += 1;
            }
            w.u8(lg_arr);
            w.u8(if compact { 8 } else { 0 });
            w.u8(0);
            w.u8(1 | (tgt << 2));
            w.u32le(im.coupons.len() as u32);
            if compact {
                for &c in &im.coupons {
                    w.u32le(c);
                }
            } else {
                let mut table = vec![0u32; 1 << lg_arr];
                for &c in &im.coupons {
                    put_set_cell(&mut table, lg_arr, c);
                }
                for c in table {
                    w.u32le(c);
                }
            }
        }
        _ => {
            let k = 1usize << im.lg_k;
            // updatable HLL4 images carry lgAuxArrInts in byte 4
            let mut lg_aux = LG_AUX_ARR_INTS[im.lg_k as usize];
            while (im.aux.len() * 4) > (3 << lg_aux) {
                lg_aux += 1;
            }
            // (Java leaves it 0 when there is no aux map; the table then has the default size)
            w.u8(if im.target_bits == 4 && !compact && !im.aux.is_empty() { lg_aux } else { 0 });
            w.u8((if compact { 8 } else { 0 }) | (if im.ooo { 16 } else { 0 }));
            w.u8(im.cur_min);
            w.u8(2 | (tgt << 2));
            w.f64le(im.hip);
            w.f64le(im.kxq0);
            w.f64le(im.kxq1);
            w.u32le(im.num_at_cur_min);
            w.u32le(im.aux.len() as u32);
            match im.target_bits {
                4 => {
                    let mut bytes = vec![0u8; k / 2];
                    for s in 0..k {
                        let d = im.regs[s] - im.cur_min;
                        let nib = if d >= 15 { 15 } else { d };
                        if s & 1 == 0 {
                            bytes[s >> 1] |= nib;
                        } else {
                            bytes[s >> 1] |= nib << 4;
                        }
                    }
                    w.bytes(&bytes);
                    if compact {
                        for &(s, v) in &im.aux {
                            w.u32le(((v as u32) << 26) | s);
                        }
                    } else {
                        let mut table = vec![0u32; 1 << lg_aux];
                        for &(s, v) in &im.aux {
                            put_aux_cell(&mut table, lg_aux, s, ((v as u32) << 26) | s);
                        }
                        for c in table {
                            w.u32le(c);
                        }
                    }
                }
                6 => {
                    let mut bytes = vec![0u8; (k * 3) / 4 + 1];
                    for s in 0..k {
                        let bit = s * 6;
                        let v = (im.regs[s] as u16 & 0x3f) << (bit & 7);
                        bytes[bit >> 3] |= (v & 0xff) as u8;
                        bytes[(bit >> 3) + 1] |= (v >> 8) as u8;
                    }
                    w.bytes(&bytes);
                }
                _ => w.bytes(&im.regs),
            }
        }
    }
    w.b
}
