#!/usr/bin/env python3
"""record_fixed.py <property> <commit> <signature-substring> "<what failed>"
Adds one 'fixed' entry per distinct matching signature found in /verif/replays (witness = the recorded case)."""
import glob, json, sys
prop, commit, filt, what = sys.argv[1:5]
k = json.load(open('/verif/known_findings.json'))
have = {(f['property'], f['signature']) for f in k['findings']}
added = 0
for f in sorted(glob.glob(f'/verif/replays/{prop}-*.json')):
    d = json.load(open(f))
    sig = d['signature']
    if filt not in sig or (prop, sig) in have:
        continue
    have.add((prop, sig))
    case = d['case']
    case.setdefault('profile', 'rel')
    k['findings'].append({"property": prop, "status": "fixed", "commit": commit, "signature": sig,
                          "what_fails": what + ": " + d['message'][:160], "witness": case})
    added += 1
if added:
    k['records'].append(f"fixed: property={prop} {commit} {what} ({added} witnessed signatures)")
json.dump(k, open('/verif/known_findings.json', 'w'), indent=1)
print("added", added)
