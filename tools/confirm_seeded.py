#!/usr/bin/env python3
"""confirm_seeded.py <worktree> <mdir-name> <seeded-id> <property>
Confirms, in the scratch worktree, that a sub-agent's mutation compiles, keeps the stable suite green, and that its
demo fails with the patch and passes without; then stores it under /verif/seeded/<id>/ with meta.json."""
import json, os, re, shutil, subprocess, sys
wt, mdir, sid, prop = sys.argv[1:5]
src = os.path.join(wt, "_seeded", mdir)
b = json.load(open('/root/.vp/BASELINE.json'))
allowed_fail = {n.split('::')[-1] for n in b['always_fail']}
def sh(cmd):
    p = subprocess.run(cmd, shell=True, cwd=wt, capture_output=True, text=True)
    return p.returncode, p.stdout + p.stderr
def suite(features):
    rc, out = sh(f"cargo test -p datasketches --offline --no-fail-fast {features} 2>&1")
    ok = re.findall(r'^test (\S+) \.\.\. ok$', out, re.M)
    failed = re.findall(r'^test (\S+) \.\.\. FAILED$', out, re.M)
    compile_err = 'error[' in out or 'could not compile' in out
    return ok, failed, compile_err, out
demo_src = open(os.path.join(src, "demo.rs")).read()
features = "--features verif-hooks" if "verif" in demo_src else ""
demo_dst = os.path.join(wt, "datasketches", "tests", "seeded_demo.rs")
res = {}
sh("git checkout -- datasketches/src")
rc, out = sh(f"git apply --check _seeded/{mdir}/patch.diff")
if rc != 0:
    print("patch does not apply", out); sys.exit(1)
# with patch
sh(f"git apply _seeded/{mdir}/patch.diff")
shutil.copy(os.path.join(src, "demo.rs"), demo_dst)
ok, failed, cerr, out = suite(features)
demo_failed_with = [f for f in failed if f.split('::')[-1] not in allowed_fail]
# which failures belong to the demo binary? run the demo alone
rc_demo, out_demo = sh(f"cargo test -p datasketches --offline --test seeded_demo {features} 2>&1")
demo_fail_names = re.findall(r'^test (\S+) \.\.\. FAILED$', out_demo, re.M)
suite_unexpected = [f for f in demo_failed_with if f not in demo_fail_names]
res['with_patch'] = {"compile_error": cerr, "suite_passed": len(ok), "unexpected_suite_failures": suite_unexpected,
                     "demo_rc": rc_demo, "demo_failed_tests": demo_fail_names}
# without patch
sh("git checkout -- datasketches/src")
rc_demo2, out_demo2 = sh(f"cargo test -p datasketches --offline --test seeded_demo {features} 2>&1")
res['without_patch'] = {"demo_rc": rc_demo2, "demo_failed_tests": re.findall(r'^test (\S+) \.\.\. FAILED$', out_demo2, re.M)}
os.remove(demo_dst)
good = (not cerr) and not suite_unexpected and rc_demo != 0 and demo_fail_names and rc_demo2 == 0
res['confirmed'] = bool(good)
print(json.dumps(res, indent=1))
if good:
    dst = os.path.join("/verif/seeded", sid)
    os.makedirs(dst, exist_ok=True)
    shutil.copy(os.path.join(src, "patch.diff"), dst)
    shutil.copy(os.path.join(src, "demo.rs"), dst)
    notes = open(os.path.join(src, "notes.md")).read() if os.path.exists(os.path.join(src, "notes.md")) else ""
    open(os.path.join(dst, "notes.md"), "w").write(notes)
    meta = {"id": sid, "property": prop, "origin": "independent sub-agent given only the property text and a scratch worktree",
            "needs_to_manifest": "see notes.md", "demo_features": features,
            "confirmed_by": "tools/confirm_seeded.py in the scratch worktree: patch applies, crate builds, every test that passes on the unchanged tree still passes, demo fails with the patch and passes without",
            "confirmation": res}
    json.dump(meta, open(os.path.join(dst, "meta.json"), "w"), indent=1)
sys.exit(0 if good else 1)
