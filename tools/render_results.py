#!/usr/bin/env python3
"""Render seeded/RESULTS.json (written by tools/mutants.py) as the table of DESIGN.md section 12.7.

usage: tools/render_results.py        rewrites the text between the markers
       <!-- RESULTS:BEGIN --> and <!-- RESULTS:END --> in DESIGN.md
"""
import json, os, re

ROOT = os.path.dirname(os.path.dirname(os.path.abspath(__file__)))


def title(mid):
    p = os.path.join(ROOT, "seeded", mid, "notes.md")
    if not os.path.exists(p):
        return ""
    line = open(p).readline().strip().lstrip("#").strip()
    line = re.sub(r"^(C\d\d\s*/\s*)?m\d\s*[—\-:]+\s*", "", line)
    return line.replace("|", "\\|")[:110]


def main():
    res = json.load(open(os.path.join(ROOT, "seeded", "RESULTS.json")))
    rows = []
    caught = missed = thorough_only = 0
    for mid in sorted(res):
        r = res[mid]
        if mid.startswith("SELF-"):
            continue
        if r.get("not_a_violation"):
            rows.append(f"| {mid} | {title(mid)} | n/a | not a violation of the property as stated (see seeded/{mid}/meta.json) |")
            continue
        if r.get("neutralized_by"):
            rows.append(f"| {mid} | {title(mid)} | n/a | no longer a behavioural change: {r['neutralized_by'][:70]}... |")
            continue
        own = r.get("checks", {}).get(r.get("property"), {})
        meta_p = os.path.join(ROOT, "seeded", mid, "meta.json")
        meta = json.load(open(meta_p)) if os.path.exists(meta_p) else {}
        if own.get("exit") != 1 and meta.get("thorough_tier", {}).get("caught"):
            thorough_only += 1
            sig = re.sub(r"^C\d\d \| ", "", meta["thorough_tier"]["signature"]).replace("|", "\\|")[:95]
            rows.append(f"| {mid} | {title(mid)} | thorough only | {sig} |")
            continue
        ok = own.get("exit") == 1
        caught += ok
        missed += (not ok)
        sig = (own.get("signatures") or [""])[0]
        sig = re.sub(r"^C\d\d \| ", "", sig).replace("|", "\\|")[:95]
        rows.append(f"| {mid} | {title(mid)} | {'caught' if ok else 'MISSED'} | {sig} |")
    na = sum(1 for r in res.values() if r.get("neutralized_by") or r.get("not_a_violation"))
    head = (f"{caught + missed + na + thorough_only} independently seeded changes kept; {na} of them are not (or no longer) violations of their property "
            f"(see their meta.json); of the other {caught + missed + thorough_only}, {caught} are caught by the quick check of their own property"
            f"{'' if not thorough_only else f', {thorough_only} only by its thorough check (statistical effects below the resolution of the quick tier)'}"
            f"{'' if not missed else f', {missed} missed'} (`tools/mutants.py`, `/repo` at {next(iter(res.values())).get('repo_head', '?')}).\n\n"
            "| id | change (first line of the author's notes) | quick check | first signature reported |\n|---|---|---|---|\n")
    text = head + "\n".join(rows) + "\n"
    p = os.path.join(ROOT, "DESIGN.md")
    s = open(p).read()
    b, e = "<!-- RESULTS:BEGIN -->", "<!-- RESULTS:END -->"
    if b not in s:
        s += f"\n### 12.7 All seeded changes and what the quick checks reported\n\n{b}\n{e}\n"
    s = s[: s.index(b) + len(b)] + "\n" + text + s[s.index(e):]
    open(p, "w").write(s)
    print(f"caught {caught} missed {missed}")


if __name__ == "__main__":
    main()
