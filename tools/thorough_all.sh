#!/bin/bash
# Run the thorough tier of every property in sequence and print one summary line each.
# usage: tools/thorough_all.sh [SEED] [PROP ...]   (from /verif or from a `vp run --with-repo` snapshot)
# In a snapshot ($VP_RUN_REPO set) the harness is pointed at the snapshot of /repo and evidence goes to a scratch
# directory: such runs are silence / timing tests, never evidence.
seed=${1:-1}; shift
props=${@:-C06 C11 C12 C16 C05 C13 C09 C03 C08 C04 C02 C07 C10 C15 C18 C17 C01 C14}
if [ -n "$VP_RUN_REPO" ]; then
  sed -i "s#/repo/datasketches#$VP_RUN_REPO/datasketches#" harness/Cargo.toml
  export VERIF_EVIDENCE_DIR=$PWD/.run/snapshot-evidence
  mkdir -p "$VERIF_EVIDENCE_DIR"
fi
for p in $props; do
  s=$(date +%s)
  VERIF_SEED=$seed ./check $p --tier thorough > thorough_$p.log 2>&1
  rc=$?
  echo "$p seed=$seed rc=$rc secs=$(( $(date +%s)-s )) $(grep -v '^KNOWN\|^note' thorough_$p.log | tail -1 | cut -c1-220)"
  if [ $rc -ne 0 ]; then grep -v '^KNOWN\|^note' thorough_$p.log | tail -12 | cut -c1-400; fi
done
