#!/usr/bin/env python3
"""Run /repo's suite with hooks off and compare with /root/.vp/BASELINE.json (218 stable passes, 36 file-dependent fails)."""
import json, re, subprocess, sys
b = json.load(open('/root/.vp/BASELINE.json'))
allowed_fail = {n.split('::')[-1] for n in b['always_fail']}
p = subprocess.run('cd /repo && cargo test --workspace --no-fail-fast --offline 2>&1', shell=True, capture_output=True, text=True)
out = p.stdout
ok = len(re.findall(r'^test .* \.\.\. ok$', out, re.M))
failed = re.findall(r'^test (\S+) \.\.\. FAILED$', out, re.M)
unexpected = [f for f in failed if f.split('::')[-1] not in allowed_fail]
print(f"passed={ok} failed={len(failed)} unexpected_failures={unexpected}")
if 'error[' in out or 'could not compile' in out:
    print(out[-3000:]); sys.exit(1)
# doc tests count as passes too; the 218 stable ones are unit+integration tests
sys.exit(0 if not unexpected and ok >= b['n_stable'] else 1)
