#!/usr/bin/env python3
"""Regenerates /verif/MANIFEST.json from the table below (kept in one place so it stays valid)."""
import json, os, subprocess
ROOT = os.path.dirname(os.path.dirname(os.path.abspath(__file__)))

# id -> (technique, level text, level note, design ref)
EXPL = "Exploration: verdict is 'held on the executions observed'. "
CLAIMED = {
 "C01": ("statistical runtime monitor: thousands of independent item sets per (family, configuration, path, cardinality) cell; deterministic clauses on every observation, bias / spread / coverage per cell by hypothesis tests with stated tolerances",
         EXPL + "HLL (HIP, coupon regime, composite estimator of unions), CPC (HIP, ICON of unions, CpcWrapper) and theta (exact, estimation, sampling p<1) observed at n = 0 and ~33 checkpoints up to 65536 on streamed, round-tripped and merged sketches. Unbiasedness and coverage are statements about the distribution over inputs; only a population of executions can refute them.",
         "Tolerances are part of the claim: bias 0.08 RSE (0.15 RSE for the CPC ICON estimator, whose published polynomial is biased by ~0.09 RSE at lg_k 4) + 6 max(sd, RSE)/sqrt(T), spread 1.25 RSE, coverage nominal - (0.04, 0.025, 0.006) tested by an exact binomial tail at 1e-9; effects below them are invisible. T = 400 per cell in quick and 6000 in thorough for streams to 64k items; sketches with lg_k <= 8 additionally run 'dense' cells (streams to 128 k items, at least 4096) with up to 32 x more trials. Two deterministic clauses: merged CPC estimate vs the definition of ICON (bisection on the exact expected coupon count; 2e-5 below C = 5.6 K, 2e-3 above) and HLL interval half-width / (s x advertised RSE) in [0.93, 1.07] above lg_k 12, [0.5, 1.7] up to 12.",
         "DESIGN.md 5 (C01) as planned, 12.1 as built"),
 "C11": ("runtime round-trip monitor: deserialize(serialize(s)) compared with s accessor by accessor, hooked state by state, byte by byte, then under identical further updates and merges",
         EXPL + "Generated states of all seven families (every HLL mode/type incl. exceptions, cur_min > 0 and out-of-order union results; compact theta incl. synthetic entry sets of every delta width 1..63 and length 0..=4100; every CPC flavor and many offsets; Bloom; Count-Min in 8 counter types; Frequent Items i64/u64/String incl. purged-empty; t-digest).",
         "Byte identity is required where the layout is canonical (not for Frequent Items item order and the HLL_4 exception list order, which follow hash-table layout; compared as decoded states). HIP after a later promotion and purge offsets after the round trip are order dependent and not compared.",
         "DESIGN.md 5 (C11) as planned, 12.1 as built"),
 "C12": ("runtime differential monitor: every emitted image decoded by an independent spec decoder (written from the published Java/C++ layouts) and compared with the reference model of the stream",
         EXPL + "Same generated states as C11; the decoders (harness/src/spec: HLL, theta v1-v4, CPC FM85, Bloom, Count-Min, Frequent Items, t-digest) check every preamble field, flag, length and padding and return the abstract state, which must equal the model's.",
         "Trusted: my reading of the Java/C++ layouts; CPC compression tables are pinned from this commit (sha256 recorded, internal consistency self-checked at start-up). No cross-language .sk files exist in the sandbox.",
         "DESIGN.md 5 (C12) as planned, 12.1 as built"),
 "C13": ("runtime differential monitor: images produced by independent spec encoders in every Java/C++ variant are deserialized by the library and compared with the encoded state, then united / updated / re-serialized",
         EXPL + "HLL compact and updatable forms (aux list vs aux hash table, out-of-order flag, cur_min > 0), theta serial versions 1-4 (empty, single item with/without flag, exact, estimating, ordered/unordered, Java/C++ padding), CPC all flavors with/without HIP and stale first-interesting-column, t-digest nine image classes x four encodings, Bloom dirty counts, Count-Min, Frequent Items flag conventions.",
         "Trusted: spec encoders (harness/src/spec). Variants are those I know Java/C++ to emit; no foreign files are available to confirm.",
         "DESIGN.md 5 (C13) as planned, 12.1 as built"),
 "C14": ("runtime event monitor: panic hook + allocation monitor (refusing global allocator, alloc-error hook) around 20 deserialize entry points fed structure-aware mutations of valid images; Ok values driven through a post phase",
         EXPL + "Seeds are valid images of every family/variant/mode (library-written and spec-encoded); mutators: field-aware boundary values from the spec decoders' field maps, bit flips, byte sets, payload-word replacement, truncation at every offset, extension, splicing, random tails, random strings; run in the rel and the dbg (overflow-checks, debug-assertions) profile.",
         "Allocation is 'out of proportion' above 1 MiB + 64 bytes per input byte (plus what an Ok value retains); empty Bloom / Count-Min / Frequent-Items images may legitimately declare large tables. 'Never loops' is decided by a hang guard: a call still in flight after 20 s ends the shard with a witness, which the driver replays alone twice before reporting it; a single overrun is inconclusive.",
         "DESIGN.md 5 (C14) as planned, 12.1 as built"),
 "C17": ("runtime event monitor: valid-use programs (the histories of the behavioural monitors plus an extremes lane at documented limits) executed under debug-assertions + overflow-checks and under release; any panic is a violation",
         EXPL + "Every debug_assert!, unreachable!, expect and arithmetic overflow in the library is armed in the dbg profile; programs include a sweep over every lg_k of HLL 4..21 / CPC 4..26 / theta 5..26 (all queries at all three standard deviations on streamed, deserialized and united sketches), the public codec helpers, HLL lg_k 4/21 with cur_min shifts and exceptions, CPC lg_k 4/21/26 incl. windowed sketches at lg_k 21, t-digest k up to 65535 and empty split lists, Count-Min totals at the counter type's maximum.",
         "Documented panics (out-of-range parameters, incompatible merges, NaN rank, unsorted splits, seeds with a zero seed hash) are excluded by construction. Paths not driven are not covered.",
         "DESIGN.md 5 (C17) as planned, 12.1 as built"),
 "C18": ("runtime measurement monitor: serialized sizes / retained counts after every power-of-two prefix of long streams vs the bound the configuration implies; CPC size claim by a binomial test over trials",
         EXPL + "Streams of up to 2^20 (2^22 thorough) distinct / repeated / scattered items into HLL, theta, Frequent Items, Bloom, Count-Min, t-digest; CPC: trials streaming to C = 8K with the maximum image size over 80 points in C/K in [3,8] against max_serialized_bytes.",
         "HLL sizes are judged against the mode the (spec-decoded) image itself declares. CPC claim: <= 0.1% of trials + 6 sigma binomial margin, never by more than 25%.",
         "DESIGN.md 5 (C18) as planned, 12.1 as built"),
 "C02": ("runtime reference-model monitor: Hll4/Hll6/Hll8 instances vs textbook per-slot-maximum model, state dumped through hooks after every operation; dump invariants and HIP increment law",
         EXPL + "Generated histories (crafted coupon phases reaching value 63, cur_min shifts with live aux exceptions, hashed items with duplication, permutations) are fed to the real sketches and to an exact model; the full hooked state is compared after every operation for lg_k<=8 and at checkpoints above. State equality for all streams cannot be settled by examples; comparing the whole state after every prefix of thousands of adversarial histories is the strongest oracle this family has.",
         "Trusted: the HLL model (harness/src/model/hll.rs), the reference MurmurHash3; coupons injected through the hook are assumed reachable by hashing. lg_k 13..17 (quick) / 13..21 (thorough) at checkpoints only.",
         "DESIGN.md 5 (C02) as planned, 12.1 as built"),
 "C03": ("runtime reference-model monitor: HllUnion histories vs fold/max union model; to_sketch in all three types, gadget dump, permuted replay",
         EXPL + "Random union histories over lg_max_k x input (lg_k, type, mode, fresh/round-tripped, in-order/out-of-order) x update_value/reset; after every step the dumps of to_sketch(Hll4|6|8) and of the gadget are compared with the model, estimates and bounds must agree across types and be non-zero, and a permuted/repeated replay must give the same state.",
         "Trusted: union model in harness/src/mon/c03.rs; inputs are built through the coupon hook (hash-like coupons; a sixth of the cases plant tall registers up to 63, for which the estimate band is switched off); every to_sketch result is also round-tripped through its own image. Out-of-order inputs come from helper unions, spec-encoded OOO images are covered by C13.",
         "DESIGN.md 5 (C03) as planned, 12.1 as built"),
 "C04": ("runtime reference-model monitor: theta KMV model (set of offered hashes below theta) vs iter()/num_retained/theta after every operation",
         EXPL + "Histories of update / adversarial hash injection (probe-colliding families, theta+-1, 0, MAX) / trim / reset / compact over lg_k, resize factor, sampling p and seed; cheap invariants after every operation and full entry-set comparison at every change.",
         "Trusted: KMV model in harness/src/mon/c04.rs and the reference MurmurHash3; injected hashes go through a hook that repeats the library's screen (the screen inside update() itself is exercised by the public lane only).",
         "DESIGN.md 5 (C04) as planned, 12.1 as built"),
 "C05": ("runtime reference-model monitor: CPC bit-matrix model vs hooked matrix, own reconstruction from window+table, validate(), offset/flavor/table/first_interesting_column invariants, KxP and HIP recurrences",
         EXPL + "The complete natural arrival order of novel coupons (the exact law of a hashed stream) drives each sketch through all five flavors and window offsets 1..56 with every 8th-shift KxP refresh, optionally perturbed (planted surprising ones, delayed surprising zeros, duplicates) inside a stated envelope; hashed public lane in addition.",
         "Trusted: CPC model (harness/src/model/cpc.rs). Perturbed streams stay inside the envelope of DESIGN.md 2.2. lg_k 13..17 (quick) / 13..22 (thorough) as one hook lane to C = 4.5 K and one public lane each.",
         "DESIGN.md 5 (C05) as planned, 12.1 as built"),
 "C06": ("runtime reference-model monitor: CpcUnion histories vs OR-of-folded-matrices model, all C05 invariants on every result, CpcWrapper agreement, permuted replay",
         EXPL + "Random union histories over union lg_k x inputs of every flavor (exact coupon counts, boundaries favoured), fresh / deserialized / union results; to_sketch after every step.",
         "Trusted: fold/OR model in harness/src/mon/c06.rs; the ICON estimate itself is only cross-checked against CpcWrapper (its accuracy is C01's).",
         "DESIGN.md 5 (C06) as planned, 12.1 as built"),
 "C07": ("runtime reference-model monitor: exact frequency map vs bounds of every item of the domain at every purge, merge and checkpoint; frequent_items lists vs truth",
         EXPL + "Weighted streams of six shapes (incl. all-equal weights that make a purge remove every counter) into 1..5 sketches of equal or different sizes, item types i64/u64/String, optional round trips, random merge order with further updates.",
         "Trusted: exact HashMap model; domain <= 4096 items so that every item (seen or not) is checked.",
         "DESIGN.md 5 (C07) as planned, 12.1 as built"),
 "C08": ("runtime reference-model monitor: exact counter-table model (documented bucket rule with reference hashes) vs table parsed from the image; one-sided guarantee for every item; tail clause by binomial test",
         EXPL + "Histories of update / merge / halve / decay / round trip over num_hashes x num_buckets x seeds x all 8 counter types, including histories in the upper half of the counter range.",
         "Trusted: table model and reference MurmurHash3; image layout (16-byte preamble, total, row-major counters) as decoded by the harness.",
         "DESIGN.md 5 (C08) as planned, 12.1 as built"),
 "C09": ("runtime reference-model monitor: reference-position bit-array model (XXH64) vs bit array parsed from the image; membership of inserted and arbitrary items; measured fpp of with_accuracy cells",
         EXPL + "Histories of insert / contains_and_insert / union / intersect / invert / reset / round trip on filters of 1..65536 bits (non-multiples of 64 included), 1..16 hashes, six item kinds with assorted write patterns, with a compatible partner.",
         "Trusted: bit model and reference XXH64; fpp clause is statistical (mean over >= 20 filters, 1.3p + 6 sigma).",
         "DESIGN.md 5 (C09) as planned, 12.1 as built"),
 "C10": ("runtime invariant monitor over dense query grids: monotonicity / range / cdf-pmf-rank consistency / rank(quantile(q)) resolution on TDigestMut and TDigest, for streamed, merged, frozen, round-tripped digests and digests deserialized from spec-encoded images",
         EXPL + "Universal shape-of-answer statements are checked on grids of q and v (centroid means +-1ulp, midpoints, extremes, outside) at checkpoints of generated histories and on synthetic images of nine classes in four encodings.",
         "Trusted: t-digest spec codec (harness/src/spec/tdigest.rs) used to read the centroid list and to encode synthetic images; float slack 1e-12 relative on monotonicity; resolution tolerance stated in DESIGN.md.",
         "DESIGN.md 5 (C10) as planned, 12.1 as built"),
 "C15": ("runtime monitor against exact sorted data: centroid count / image size / weight sum / order, and rank error vs the exact empirical distribution within 3 x the k2-scale resolution (12 x (q(1-q)/k + 1/n) on smooth distributions, one sample at untied extremes), first query taken before anything flushes the buffer",
         EXPL + "Streams of 17 shapes up to 1e5 (1e6 thorough) values in generated / ascending / descending arrival order, streamed with checkpoints or split over merge trees of 2..16 digests, k in {10, 11, 12, 15, 29, 30, 50, 100, 200, 500}; one small-k long sorted stream per shard.",
         "Trusted: exact sorted data, spec decoder. Two extreme-dynamic-range shapes are listed as open known findings (known_findings.json); every other shape is held to the clause.",
         "DESIGN.md 5 (C15) as planned, 12.1 as built"),
 "C16": ("runtime differential monitor: library hashers and derived slot/row/bucket values vs independent reference hashes over generated (bytes, seed, chunking) cases",
         EXPL + "Every (byte string, seed, chunking) fed to the crate's streaming MurmurHash3/XXH64 is compared with an independent one-shot reference digest; chunkings are exhaustive for n<=12 and sampled above; derived quantities are observed through the public API/hooks for 15 item types.",
         "Trusted: the reference hashes in harness/src/refhash.rs (self-tested against published vectors at start-up) and the recording hasher. Lengths above 200 bytes are not driven.",
         "DESIGN.md 5 (C16) as planned, 12.1 as built"),
}
PENDING_REASON = "monitor not built yet in this round (see DESIGN.md section 11 build order); not claimed until its check exists and is silent"

def hook_commits():
    try:
        out = subprocess.run(["git", "-C", "/repo", "log", "--format=%H %s"], capture_output=True, text=True).stdout
        return [l.split()[0] for l in out.splitlines() if " verif-hooks:" in l][::-1]
    except Exception:
        return []

def main():
    props = [json.loads(l) for l in open(os.path.join(ROOT, "properties.jsonl"))]
    checks, na = [], []
    for p in props:
        pid = p["id"]
        if pid in CLAIMED:
            tech, text, note, ref = CLAIMED[pid]
            checks.append({
                "property_id": pid,
                "quick_cmd": f"./check {pid} --tier quick",
                "thorough_cmd": f"./check {pid} --tier thorough",
                "evidence_file": f"evidence/{pid}.json",
                "replay_cmd_template": f"./check {pid} --replay {{path}}",
                "engine": "dsverif",
                "level_claimed": {"category": "exploration", "text": text, "design_ref": ref},
                "level_note": note,
                "technique": tech,
            })
        else:
            na.append({"property_id": pid, "reason": PENDING_REASON})
    m = {
        "version": 1,
        "setup_cmd": "./check --setup",
        "hooks": {
            "guard": "cargo feature verif-hooks (datasketches/Cargo.toml, off by default)",
            "enable": "the harness crate /verif/harness depends on /repo/datasketches by path with features = [\"verif-hooks\"]; ./check rebuilds it from /repo's working tree on every run (cargo +nightly build --offline)",
            "baseline_off_cmd": "cd /repo && cargo test --workspace --no-fail-fast --offline",
            "source_commits": hook_commits(),
            "add_only": True,
        },
        "engines": [{
            "name": "dsverif",
            "path": "harness/",
            "serves_properties": sorted(CLAIMED.keys()),
            "kind_free_text": "Rust harness (no external crates): reference-model monitors, invariant checks on hooked state, spec codecs, statistical monitors, panic/allocation capture; driven by ./check (python3, stdlib only) which shards, aggregates, classifies against known_findings.json and writes evidence",
        }],
        "checks": checks,
        "not_applicable": na,
        "notes": "All checks: exit 0 held / exit 1 VIOLATION / exit 2 inconclusive (never prints VIOLATION). Known findings: known_findings.json. See DESIGN.md.",
    }
    with open(os.path.join(ROOT, "MANIFEST.json"), "w") as f:
        json.dump(m, f, indent=1)
    print(f"claimed {len(checks)}, not claimed {len(na)}")

main()
