#!/usr/bin/env python3
"""Regenerates /verif/MANIFEST.json from the table below (kept in one place so it stays valid)."""
import json, os, subprocess
ROOT = os.path.dirname(os.path.dirname(os.path.abspath(__file__)))

# id -> (technique, level text, level note, design ref)
CLAIMED = {
 "C16": ("runtime differential monitor: library hashers and derived slot/row/bucket values vs independent reference hashes over generated (bytes, seed, chunking) cases",
         "Exploration. Every (byte string, seed, chunking) fed to the crate's streaming MurmurHash3/XXH64 is compared with an independent one-shot reference digest; chunkings are exhaustive for n<=12 and sampled above; derived quantities are observed through the public API/hooks for 15 item types. Bit-exactness is a universal statement over inputs, so sampling plus the exhaustive small sub-space is the strongest this family offers.",
         "Trusted: the reference hashes in harness/src/refhash.rs (self-tested against published vectors at start-up) and the recording hasher. Lengths above 200 bytes are not driven.",
         "DESIGN.md 5 (C16)"),
}
PENDING_REASON = "monitor not built yet in this round (see DESIGN.md section 11 build order); not claimed until its check exists and is silent"

def hook_commits():
    try:
        out = subprocess.run(["git", "-C", "/repo", "log", "--format=%H %s"], capture_output=True, text=True).stdout
        return [l.split()[0] for l in out.splitlines() if " verif-hooks:" in l][::-1]
    except Exception:
        return []

def main():
    props = [json.loads(l) for l in open(os.path.join(ROOT, "properties.jsonl"))]
    checks, na = [], []
    for p in props:
        pid = p["id"]
        if pid in CLAIMED:
            tech, text, note, ref = CLAIMED[pid]
            checks.append({
                "property_id": pid,
                "quick_cmd": f"./check {pid} --tier quick",
                "thorough_cmd": f"./check {pid} --tier thorough",
                "evidence_file": f"evidence/{pid}.json",
                "replay_cmd_template": f"./check {pid} --replay {{path}}",
                "engine": "dsverif",
                "level_claimed": {"category": "exploration", "text": text, "design_ref": ref},
                "level_note": note,
                "technique": tech,
            })
        else:
            na.append({"property_id": pid, "reason": PENDING_REASON})
    m = {
        "version": 1,
        "setup_cmd": "./check --setup",
        "hooks": {
            "guard": "cargo feature verif-hooks (datasketches/Cargo.toml, off by default)",
            "enable": "the harness crate /verif/harness depends on /repo/datasketches by path with features = [\"verif-hooks\"]; ./check rebuilds it from /repo's working tree on every run (cargo +nightly build --offline)",
            "baseline_off_cmd": "cd /repo && cargo test --workspace --no-fail-fast --offline",
            "source_commits": hook_commits(),
            "add_only": True,
        },
        "engines": [{
            "name": "dsverif",
            "path": "harness/",
            "serves_properties": sorted(CLAIMED.keys()),
            "kind_free_text": "Rust harness (no external crates): reference-model monitors, invariant checks on hooked state, spec codecs, statistical monitors, panic/allocation capture; driven by ./check (python3, stdlib only) which shards, aggregates, classifies against known_findings.json and writes evidence",
        }],
        "checks": checks,
        "not_applicable": na,
        "notes": "All checks: exit 0 held / exit 1 VIOLATION / exit 2 inconclusive (never prints VIOLATION). Known findings: known_findings.json. See DESIGN.md.",
    }
    with open(os.path.join(ROOT, "MANIFEST.json"), "w") as f:
        json.dump(m, f, indent=1)
    print(f"claimed {len(checks)}, not claimed {len(na)}")

main()
