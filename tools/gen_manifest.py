#!/usr/bin/env python3
"""Regenerates /verif/MANIFEST.json from the table below (kept in one place so it stays valid)."""
import json, os, subprocess
ROOT = os.path.dirname(os.path.dirname(os.path.abspath(__file__)))

# id -> (technique, level text, level note, design ref)
EXPL = "Exploration: verdict is 'held on the executions observed'. "
CLAIMED = {
 "C02": ("runtime reference-model monitor: Hll4/Hll6/Hll8 instances vs textbook per-slot-maximum model, state dumped through hooks after every operation; dump invariants and HIP increment law",
         EXPL + "Generated histories (crafted coupon phases reaching value 63, cur_min shifts with live aux exceptions, hashed items with duplication, permutations) are fed to the real sketches and to an exact model; the full hooked state is compared after every operation for lg_k<=8 and at checkpoints above. State equality for all streams cannot be settled by examples; comparing the whole state after every prefix of thousands of adversarial histories is the strongest oracle this family has.",
         "Trusted: the HLL model (harness/src/model/hll.rs), the reference MurmurHash3; coupons injected through the hook are assumed reachable by hashing. lg_k 13..21 only in the thorough tier, at checkpoints.",
         "DESIGN.md 5 (C02)"),
 "C03": ("runtime reference-model monitor: HllUnion histories vs fold/max union model; to_sketch in all three types, gadget dump, permuted replay",
         EXPL + "Random union histories over lg_max_k x input (lg_k, type, mode, fresh/round-tripped, in-order/out-of-order) x update_value/reset; after every step the dumps of to_sketch(Hll4|6|8) and of the gadget are compared with the model, estimates and bounds must agree across types and be non-zero, and a permuted/repeated replay must give the same state.",
         "Trusted: union model in harness/src/mon/c03.rs; inputs are built through the coupon hook (hash-like coupons). Out-of-order inputs come from helper unions, spec-encoded OOO images are covered by C13.",
         "DESIGN.md 5 (C03)"),
 "C04": ("runtime reference-model monitor: theta KMV model (set of offered hashes below theta) vs iter()/num_retained/theta after every operation",
         EXPL + "Histories of update / adversarial hash injection (probe-colliding families, theta+-1, 0, MAX) / trim / reset / compact over lg_k, resize factor, sampling p and seed; cheap invariants after every operation and full entry-set comparison at every change.",
         "Trusted: KMV model in harness/src/mon/c04.rs and the reference MurmurHash3; injected hashes go through a hook that repeats the library's screen (the screen inside update() itself is exercised by the public lane only).",
         "DESIGN.md 5 (C04)"),
 "C05": ("runtime reference-model monitor: CPC bit-matrix model vs hooked matrix, own reconstruction from window+table, validate(), offset/flavor/table/first_interesting_column invariants, KxP and HIP recurrences",
         EXPL + "The complete natural arrival order of novel coupons (the exact law of a hashed stream) drives each sketch through all five flavors and window offsets 1..56 with every 8th-shift KxP refresh, optionally perturbed (planted surprising ones, delayed surprising zeros, duplicates) inside a stated envelope; hashed public lane in addition.",
         "Trusted: CPC model (harness/src/model/cpc.rs). Perturbed streams stay inside the envelope of DESIGN.md 2.2. lg_k > 12 only as thorough spot checks.",
         "DESIGN.md 5 (C05)"),
 "C06": ("runtime reference-model monitor: CpcUnion histories vs OR-of-folded-matrices model, all C05 invariants on every result, CpcWrapper agreement, permuted replay",
         EXPL + "Random union histories over union lg_k x inputs of every flavor (exact coupon counts, boundaries favoured), fresh / deserialized / union results; to_sketch after every step.",
         "Trusted: fold/OR model in harness/src/mon/c06.rs; the ICON estimate itself is only cross-checked against CpcWrapper (its accuracy is C01's).",
         "DESIGN.md 5 (C06)"),
 "C07": ("runtime reference-model monitor: exact frequency map vs bounds of every item of the domain at every purge, merge and checkpoint; frequent_items lists vs truth",
         EXPL + "Weighted streams of six shapes (incl. all-equal weights that make a purge remove every counter) into 1..5 sketches of equal or different sizes, item types i64/u64/String, optional round trips, random merge order with further updates.",
         "Trusted: exact HashMap model; domain <= 4096 items so that every item (seen or not) is checked.",
         "DESIGN.md 5 (C07)"),
 "C08": ("runtime reference-model monitor: exact counter-table model (documented bucket rule with reference hashes) vs table parsed from the image; one-sided guarantee for every item; tail clause by binomial test",
         EXPL + "Histories of update / merge / halve / decay / round trip over num_hashes x num_buckets x seeds x all 8 counter types, including histories in the upper half of the counter range.",
         "Trusted: table model and reference MurmurHash3; image layout (16-byte preamble, total, row-major counters) as decoded by the harness.",
         "DESIGN.md 5 (C08)"),
 "C09": ("runtime reference-model monitor: reference-position bit-array model (XXH64) vs bit array parsed from the image; membership of inserted and arbitrary items; measured fpp of with_accuracy cells",
         EXPL + "Histories of insert / contains_and_insert / union / intersect / invert / reset / round trip on filters of 1..65536 bits (non-multiples of 64 included), 1..16 hashes, six item kinds with assorted write patterns, with a compatible partner.",
         "Trusted: bit model and reference XXH64; fpp clause is statistical (mean over >= 20 filters, 1.3p + 6 sigma).",
         "DESIGN.md 5 (C09)"),
 "C10": ("runtime invariant monitor over dense query grids: monotonicity / range / cdf-pmf-rank consistency / rank(quantile(q)) resolution on TDigestMut and TDigest, for streamed, merged, frozen, round-tripped digests and digests deserialized from spec-encoded images",
         EXPL + "Universal shape-of-answer statements are checked on grids of q and v (centroid means +-1ulp, midpoints, extremes, outside) at checkpoints of generated histories and on synthetic images of nine classes in four encodings.",
         "Trusted: t-digest spec codec (harness/src/spec/tdigest.rs) used to read the centroid list and to encode synthetic images; float slack 1e-12 relative on monotonicity; resolution tolerance stated in DESIGN.md.",
         "DESIGN.md 5 (C10)"),
 "C15": ("runtime monitor against exact sorted data: centroid count / image size / weight sum / order, and rank error vs the exact empirical distribution within 3 x the k2-scale resolution",
         EXPL + "Streams of 16 shapes up to 1e5 (1e6 thorough) values, streamed with checkpoints or split over merge trees of 2..16 digests, k in {10..500}.",
         "Trusted: exact sorted data, spec decoder. Two extreme-dynamic-range shapes are listed as open known findings (known_findings.json); every other shape is held to the clause.",
         "DESIGN.md 5 (C15)"),
 "C16": ("runtime differential monitor: library hashers and derived slot/row/bucket values vs independent reference hashes over generated (bytes, seed, chunking) cases",
         EXPL + "Every (byte string, seed, chunking) fed to the crate's streaming MurmurHash3/XXH64 is compared with an independent one-shot reference digest; chunkings are exhaustive for n<=12 and sampled above; derived quantities are observed through the public API/hooks for 15 item types.",
         "Trusted: the reference hashes in harness/src/refhash.rs (self-tested against published vectors at start-up) and the recording hasher. Lengths above 200 bytes are not driven.",
         "DESIGN.md 5 (C16)"),
}
PENDING_REASON = "monitor not built yet in this round (see DESIGN.md section 11 build order); not claimed until its check exists and is silent"

def hook_commits():
    try:
        out = subprocess.run(["git", "-C", "/repo", "log", "--format=%H %s"], capture_output=True, text=True).stdout
        return [l.split()[0] for l in out.splitlines() if " verif-hooks:" in l][::-1]
    except Exception:
        return []

def main():
    props = [json.loads(l) for l in open(os.path.join(ROOT, "properties.jsonl"))]
    checks, na = [], []
    for p in props:
        pid = p["id"]
        if pid in CLAIMED:
            tech, text, note, ref = CLAIMED[pid]
            checks.append({
                "property_id": pid,
                "quick_cmd": f"./check {pid} --tier quick",
                "thorough_cmd": f"./check {pid} --tier thorough",
                "evidence_file": f"evidence/{pid}.json",
                "replay_cmd_template": f"./check {pid} --replay {{path}}",
                "engine": "dsverif",
                "level_claimed": {"category": "exploration", "text": text, "design_ref": ref},
                "level_note": note,
                "technique": tech,
            })
        else:
            na.append({"property_id": pid, "reason": PENDING_REASON})
    m = {
        "version": 1,
        "setup_cmd": "./check --setup",
        "hooks": {
            "guard": "cargo feature verif-hooks (datasketches/Cargo.toml, off by default)",
            "enable": "the harness crate /verif/harness depends on /repo/datasketches by path with features = [\"verif-hooks\"]; ./check rebuilds it from /repo's working tree on every run (cargo +nightly build --offline)",
            "baseline_off_cmd": "cd /repo && cargo test --workspace --no-fail-fast --offline",
            "source_commits": hook_commits(),
            "add_only": True,
        },
        "engines": [{
            "name": "dsverif",
            "path": "harness/",
            "serves_properties": sorted(CLAIMED.keys()),
            "kind_free_text": "Rust harness (no external crates): reference-model monitors, invariant checks on hooked state, spec codecs, statistical monitors, panic/allocation capture; driven by ./check (python3, stdlib only) which shards, aggregates, classifies against known_findings.json and writes evidence",
        }],
        "checks": checks,
        "not_applicable": na,
        "notes": "All checks: exit 0 held / exit 1 VIOLATION / exit 2 inconclusive (never prints VIOLATION). Known findings: known_findings.json. See DESIGN.md.",
    }
    with open(os.path.join(ROOT, "MANIFEST.json"), "w") as f:
        json.dump(m, f, indent=1)
    print(f"claimed {len(checks)}, not claimed {len(na)}")

main()
