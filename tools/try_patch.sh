#!/bin/bash
# usage: try_patch.sh <patch.diff> <PROP> [<PROP>...]  — apply to /repo, run quick checks, undo
patch="$1"; shift
cd /repo || exit 2
if ! git diff --quiet; then echo "/repo has uncommitted changes"; exit 2; fi
git apply "$patch" || { echo "patch does not apply"; exit 2; }
for p in "$@"; do
  out=$(cd /verif && ./check "$p" --tier ${TIER:-quick} 2>&1); rc=$?
  echo "== $p rc=$rc"
  echo "$out" | grep -E "signature|^OK|INCONCLUSIVE|KNOWN" | cut -c1-260 | sort | uniq -c | head -${LINES_MAX:-6}
done
git checkout -- . 
