#!/usr/bin/env python3
"""Run the registered checks against every confirmed seeded change in /verif/seeded.

usage: tools/mutants.py [--tier quick] [--all-props] [ID ...]

For each seeded/<id>/patch.diff: apply it to /repo's working tree (which must be clean), run the
quick check of the property the change was written against (or of every property with --all-props),
undo the patch, and record exit code and the violation signatures printed. Results are written to
seeded/RESULTS.json (a record of the last sensitivity run, not an input of any check).

Never run this while another ./check is running: it edits /repo's working tree.
"""
import json, os, re, subprocess, sys, time

VERIF = os.path.dirname(os.path.dirname(os.path.abspath(__file__)))
REPO = "/repo"
ALL = ["C%02d" % i for i in range(1, 19)]


def sh(cmd, **kw):
    return subprocess.run(cmd, shell=True, stdout=subprocess.PIPE, stderr=subprocess.STDOUT, text=True, **kw)


def main():
    args = sys.argv[1:]
    tier = "quick"
    allp = False
    ids = []
    while args:
        a = args.pop(0)
        if a == "--tier":
            tier = args.pop(0)
        elif a == "--all-props":
            allp = True
        else:
            ids.append(a)
    if sh("git -C /repo diff --quiet").returncode != 0:
        print("/repo has uncommitted changes")
        return 2
    sdir = os.path.join(VERIF, "seeded")
    names = sorted(d for d in os.listdir(sdir) if os.path.isfile(os.path.join(sdir, d, "patch.diff")))
    if ids:
        names = [n for n in names if n in ids]
    os.makedirs(os.path.join(VERIF, ".run", "mutant-evidence"), exist_ok=True)
    respath = os.path.join(sdir, "RESULTS.json")
    results = {}
    if os.path.exists(respath):
        results = json.load(open(respath))
    for n in names:
        meta = json.load(open(os.path.join(sdir, n, "meta.json")))
        if meta.get("not_a_violation"):
            results[n] = {"property": meta["property"], "not_a_violation": meta["not_a_violation"]}
            print(n, "skipped: not a violation of the property as stated")
            continue
        if meta.get("neutralized_by"):
            results[n] = {"property": meta["property"], "neutralized_by": meta["neutralized_by"]}
            print(n, "skipped: no longer a behavioural change on the repaired tree")
            continue
        props = ALL if allp else [meta["property"]]
        if sh(f"git -C /repo apply {sdir}/{n}/patch.diff").returncode != 0:
            print(n, "patch does not apply")
            results[n] = {"error": "patch does not apply"}
            continue
        try:
            entry = results.get(n, {}) if allp else {}
            entry.update({"property": meta["property"], "tier": tier, "repo_head": sh("git -C /repo rev-parse --short HEAD").stdout.strip()})
            entry.setdefault("checks", {})
            for p in props:
                t0 = time.time()
                r = sh(f"cd {VERIF} && ./check {p} --tier {tier}", env=dict(os.environ, VERIF_EVIDENCE_DIR=os.path.join(VERIF, ".run", "mutant-evidence")))
                sigs = sorted(set(re.findall(r"^  signature: (.*)$", r.stdout, re.M)))
                nviol = len(re.findall(r"^VIOLATION ", r.stdout, re.M))
                entry["checks"][p] = {"exit": r.returncode, "violation_lines": nviol, "signatures": sigs[:8], "wall_s": round(time.time() - t0, 1)}
                print(n, p, "exit", r.returncode, "violations", nviol, (sigs[:1] or [""])[0][:120], flush=True)
            results[n] = entry
        finally:
            sh("git -C /repo checkout -- .")
    json.dump(results, open(respath, "w"), indent=1, sort_keys=True)
    missed = [n for n in names if "neutralized_by" not in results[n] and "not_a_violation" not in results[n] and results[n].get("checks", {}).get(results[n].get("property"), {}).get("exit") != 1]
    print("missed by own property's check:", missed)
    return 0


if __name__ == "__main__":
    sys.exit(main())
